#!/bin/sh
# seed_confirm_all.sh <Cxx>: confirm m1..m3 of a property in its scratch worktree (background-safe: does not touch /repo)
ID=$1
SEEDROOT=${SEEDROOT:-/tmp/seed}; WTROOT=${WTROOT:-/tmp/wt}
for m in m1 m2 m3; do [ -d $SEEDROOT/$ID/$m ] && /verif/tools/confirm_seed.sh $WTROOT/$ID $SEEDROOT/$ID/$m; done > $SEEDROOT/$ID/confirm.log 2>&1
