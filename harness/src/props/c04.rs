//! C04 — MatrixGraph stays a faithful simple graph across growth, removal and id reuse.

use crate::engine::*;
use crate::util::{pick, sorted};
use petgraph::data::Build;
use petgraph::graph::{IndexType, NodeIndex};
use petgraph::matrix_graph::{MatrixError, MatrixGraph, NotZero, Nullable};
use petgraph::visit::{
    GetAdjacencyMatrix, IntoEdgeReferences, IntoNodeIdentifiers, IntoNodeReferences, NodeIndexable,
};
use petgraph::{Directed, Direction, EdgeType, Undirected};
use proptest::prelude::*;
use serde::{Deserialize, Serialize};
use std::collections::hash_map::RandomState;
use std::collections::BTreeMap;

#[derive(Debug, Clone, Serialize, Deserialize)]
pub enum Op {
    AddNode(u8),
    RemoveNode(u16),
    RemoveAbsentNode(u16),
    /// set an edge between two live nodes: kind 0 add_edge/update_edge, 1 update_edge, 2 try_update_edge,
    /// 3 add_or_update_edge, 4 Build::add_edge (update_edge when present), 5 Build::update_edge, 6 Build::add_edge also when the edge is present (must refuse and change nothing)
    SetEdge(u8, u16, u16),
    /// edge between the two highest live ids (forces row relocation at the next growth)
    SetHighEdge(u16),
    RemoveEdge(u16),
    RemoveAbsentEdge(u16, u16),
    TryRemoveEdge(u16, u16),
    TryUpdateBeyond(u16),
    Clear,
    Extend(Vec<(u16, u16)>),
    NodeWeight(u16, u8),
    EdgeWeight(u16, u8),
    BulkNodes(u8),
    CloneReplace,
}

#[derive(Debug, Clone, Serialize, Deserialize)]
pub struct Case {
    pub directed: bool,
    pub notzero: bool,
    /// 0 u8, 1 u16, 2 u32
    pub width: u8,
    /// initial capacity: 0 = default(), k>0 = with_capacity(k-1)
    pub cap: u8,
    pub ops: Vec<Op>,
}

fn op_strategy() -> impl Strategy<Value = Op> {
    let s = any::<u16>;
    prop_oneof![
        12 => (0u8..3).prop_map(Op::AddNode),
        6 => s().prop_map(Op::RemoveNode),
        1 => s().prop_map(Op::RemoveAbsentNode),
        24 => (0u8..7, s(), s()).prop_map(|(k, a, b)| Op::SetEdge(k, a, b)),
        6 => s().prop_map(Op::SetHighEdge),
        6 => s().prop_map(Op::RemoveEdge),
        1 => (s(), s()).prop_map(|(a, b)| Op::RemoveAbsentEdge(a, b)),
        4 => (s(), s()).prop_map(|(a, b)| Op::TryRemoveEdge(a, b)),
        1 => s().prop_map(Op::TryUpdateBeyond),
        1 => Just(Op::Clear),
        2 => proptest::collection::vec((s(), s()), 0..4).prop_map(Op::Extend),
        2 => (s(), 0u8..3).prop_map(|(a, k)| Op::NodeWeight(a, k)),
        2 => (s(), 0u8..3).prop_map(|(a, k)| Op::EdgeWeight(a, k)),
        3 => (1u8..20).prop_map(Op::BulkNodes),
        1 => Just(Op::CloneReplace),
    ]
}

pub fn strategy(tier: Tier) -> BoxedStrategy<Case> {
    let maxops = if tier == Tier::Quick { 60 } else { 160 };
    (any::<bool>(), any::<bool>(), 0u8..3, 0u8..=10, proptest::collection::vec(op_strategy(), 0..=maxops))
        .prop_map(|(directed, notzero, width, cap, ops)| Case { directed, notzero, width, cap, ops })
        .boxed()
}

/// fills a u8 graph to its limit
pub fn capacity_strategy(_tier: Tier) -> BoxedStrategy<Case> {
    let bulk = (100u8..=255).prop_map(Op::BulkNodes);
    (any::<bool>(), any::<bool>(), proptest::collection::vec(prop_oneof![2 => bulk, 3 => op_strategy()], 1..=10))
        .prop_map(|(directed, notzero, ops)| Case { directed, notzero, width: 0, cap: 0, ops })
        .boxed()
}

#[derive(Clone, Debug, PartialEq)]
struct Model {
    directed: bool,
    nodes: BTreeMap<usize, i32>,
    edges: BTreeMap<(usize, usize), i32>,
}

impl Model {
    fn key(&self, a: usize, b: usize) -> (usize, usize) {
        if self.directed || a <= b {
            (a, b)
        } else {
            (b, a)
        }
    }
    fn bound(&self) -> usize {
        self.nodes.keys().next_back().map_or(0, |k| k + 1)
    }
    fn out(&self, a: usize) -> Vec<(usize, usize, i32)> {
        let mut v = Vec::new();
        for (&(x, y), &w) in &self.edges {
            if self.directed {
                if x == a {
                    v.push((a, y, w));
                }
            } else if x == a || y == a {
                v.push((a, if x == a { y } else { x }, w));
            }
        }
        v
    }
    fn inn(&self, a: usize) -> Vec<(usize, usize, i32)> {
        self.edges.iter().filter(|(&(_, y), _)| y == a).map(|(&(x, _), &w)| (x, a, w)).collect()
    }
}

macro_rules! ck {
    ($cond:expr, $sig:expr, $($arg:tt)*) => {
        if !($cond) {
            return Err(Failure { sig: format!("C04/{}", $sig), msg: format!($($arg)*) });
        }
    };
}

type MG<Ty, Null, Ix> = MatrixGraph<i32, i32, RandomState, Ty, Null, Ix>;

fn observe_common<Ty: EdgeType, Null: Nullable<Wrapped = i32>, Ix: IndexType>(g: &MG<Ty, Null, Ix>, m: &Model, at: &str, light: bool) -> Result<(), Failure> {
    let ix = |i: usize| NodeIndex::<Ix>::new(i);
    let mx = <Ix as IndexType>::max().index();
    ck!(g.node_count() == m.nodes.len(), "node_count", "{at}: node_count() = {}, expected {}", g.node_count(), m.nodes.len());
    ck!(g.edge_count() == m.edges.len(), "edge_count", "{at}: edge_count() = {}, expected {} ({:?})", g.edge_count(), m.edges.len(), m.edges.keys().collect::<Vec<_>>());
    ck!(g.is_directed() == m.directed, "is_directed", "{at}: is_directed()");
    let bound = m.bound();
    ck!(g.node_bound() >= bound, "node_bound", "{at}: node_bound() = {} but node {} is live", g.node_bound(), bound.saturating_sub(1));
    let ids: Vec<usize> = g.node_identifiers().take(m.nodes.len() + 3).map(|x| x.index()).collect();
    ck!(ids == m.nodes.keys().copied().collect::<Vec<_>>(), "node_identifiers", "{at}: node_identifiers() = {ids:?}, expected {:?}", m.nodes.keys().collect::<Vec<_>>());
    let refs = guarded(|| g.node_references().take(m.nodes.len() + 3).map(|(i, w)| (i.index(), *w)).collect::<Vec<_>>());
    match refs {
        Ok(r) => ck!(r == m.nodes.iter().map(|(k, v)| (*k, *v)).collect::<Vec<_>>(), "node_references", "{at}: node_references() = {r:?}"),
        Err(e) => return fail("C04/node_references-panics", format!("{at}: node_references() panicked: {e}")),
    }
    let er: Vec<((usize, usize), i32)> = g.edge_references().take(m.edges.len() * 2 + 3).map(|(a, b, w)| (m.key(a.index(), b.index()), *w)).collect();
    ck!(sorted(&er) == m.edges.iter().map(|(k, w)| (*k, *w)).collect::<Vec<_>>(), "edge_references", "{at}: edge_references() = {er:?}, expected {:?}", m.edges);
    let range: Vec<usize> = if light && bound > 24 { (0..8).chain(bound - 8..bound + 2).collect() } else { (0..bound + 2).collect() };
    let range: Vec<usize> = range.into_iter().filter(|&a| a <= mx).collect();
    for &a in &range {
        ck!(g.get_node_weight(ix(a)).copied() == m.nodes.get(&a).copied(), "get_node_weight", "{at}: get_node_weight({a}) = {:?}", g.get_node_weight(ix(a)));
        let exp = m.out(a);
        let got: Vec<(usize, usize, i32)> = g.edges(ix(a)).map(|(x, y, w)| (x.index(), y.index(), *w)).collect();
        ck!(sorted(&got) == sorted(&exp), "edges", "{at}: edges({a}) = {got:?}, expected {exp:?}");
        let gn: Vec<usize> = g.neighbors(ix(a)).map(|x| x.index()).collect();
        ck!(sorted(&gn) == sorted(&exp.iter().map(|t| t.1).collect::<Vec<_>>()), "neighbors", "{at}: neighbors({a}) = {gn:?}, expected from {exp:?}");
        for &b in &range {
            let e = m.edges.get(&m.key(a, b)).copied();
            ck!(g.has_edge(ix(a), ix(b)) == e.is_some(), "has_edge", "{at}: has_edge({a},{b}) = {}", g.has_edge(ix(a), ix(b)));
            ck!(g.get_edge_weight(ix(a), ix(b)).copied() == e, "get_edge_weight", "{at}: get_edge_weight({a},{b}) = {:?}, expected {e:?}", g.get_edge_weight(ix(a), ix(b)));
            ck!(g.is_adjacent(&g.adjacency_matrix(), ix(a), ix(b)) == e.is_some(), "is_adjacent", "{at}: is_adjacent({a},{b})");
        }
    }
    Ok(())
}

fn observe_directed<Null: Nullable<Wrapped = i32>, Ix: IndexType>(g: &MG<Directed, Null, Ix>, m: &Model, at: &str) -> Result<(), Failure> {
    let mx = <Ix as IndexType>::max().index();
    for a in (0..m.bound() + 1).filter(|&a| a <= mx) {
        if m.bound() > 24 && a > 8 && a + 8 < m.bound() {
            continue;
        }
        let exp = m.inn(a);
        let got: Vec<(usize, usize, i32)> = g.edges_directed(NodeIndex::new(a), Direction::Incoming).map(|(x, y, w)| (x.index(), y.index(), *w)).collect();
        ck!(sorted(&got) == sorted(&exp), "edges_directed-incoming", "{at}: edges_directed({a}, Incoming) = {got:?}, expected {exp:?}");
        let gn: Vec<usize> = g.neighbors_directed(NodeIndex::new(a), Direction::Incoming).map(|x| x.index()).collect();
        ck!(sorted(&gn) == sorted(&exp.iter().map(|t| t.0).collect::<Vec<_>>()), "neighbors_directed-incoming", "{at}: neighbors_directed({a}, Incoming) = {gn:?}");
        let go: Vec<(usize, usize, i32)> = g.edges_directed(NodeIndex::new(a), Direction::Outgoing).map(|(x, y, w)| (x.index(), y.index(), *w)).collect();
        ck!(sorted(&go) == sorted(&m.out(a)), "edges_directed-outgoing", "{at}: edges_directed({a}, Outgoing) = {go:?}");
    }
    Ok(())
}

trait ObsDir<Null: Nullable<Wrapped = i32>, Ix: IndexType>: EdgeType + Sized {
    fn extra(g: &MG<Self, Null, Ix>, m: &Model, at: &str) -> Result<(), Failure>;
}
impl<Null: Nullable<Wrapped = i32>, Ix: IndexType> ObsDir<Null, Ix> for Directed {
    fn extra(g: &MG<Self, Null, Ix>, m: &Model, at: &str) -> Result<(), Failure> {
        observe_directed(g, m, at)
    }
}
impl<Null: Nullable<Wrapped = i32>, Ix: IndexType> ObsDir<Null, Ix> for Undirected {
    fn extra(_: &MG<Self, Null, Ix>, _: &Model, _: &str) -> Result<(), Failure> {
        Ok(())
    }
}

fn run_cfg<Ty: ObsDir<Null, Ix>, Null: Nullable<Wrapped = i32>, Ix: IndexType>(c: &Case) -> Outcome {
    let lim = <Ix as IndexType>::max().index();
    let mut g: MG<Ty, Null, Ix> = if c.cap == 0 { MatrixGraph::default() } else { MatrixGraph::with_capacity(c.cap as usize - 1) };
    let mut m = Model { directed: Ty::is_directed(), nodes: BTreeMap::new(), edges: BTreeMap::new() };
    let mut counter = 0i32;
    let mut obs = Obs::default();
    let mut pow_crossed = 0usize;
    let mut reused_with_edges = false;
    let mut removed_with_edges: Vec<usize> = Vec::new();
    // no node has been removed since the graph was created / cleared (ids are handed out sequentially)
    let mut pristine = true;
    let ix = |i: usize| NodeIndex::<Ix>::new(i);
    observe_common(&g, &m, "initially", false)?;
    for (step, op) in c.ops.iter().enumerate() {
        let at = format!("after step {step} {op:?}");
        let live: Vec<usize> = m.nodes.keys().copied().collect();
        let n = live.len();
        let bound_before = m.bound();
        macro_rules! add_node {
            ($kind:expr) => {{
                counter += 1;
                let w = counter;
                let full = n >= lim;
                let res: Result<Result<NodeIndex<Ix>, MatrixError>, String> = match $kind {
                    0 => guarded(|| Ok(g.add_node(w))),
                    1 => guarded(|| g.try_add_node(w)),
                    _ => guarded(|| Ok(Build::add_node(&mut g, w))),
                };
                match (res, full) {
                    (Ok(Ok(i)), false) => {
                        let i = i.index();
                        ck!(!m.nodes.contains_key(&i), "add_node-live-id", "{at}: add_node returned the live id {i}");
                        ck!(i <= bound_before + 64, "add_node-id-gap", "{at}: add_node returned id {i} (bound {bound_before})");
                        if removed_with_edges.contains(&i) {
                            reused_with_edges = true;
                        }
                        m.nodes.insert(i, w);
                    }
                    (Ok(Err(MatrixError::NodeIxLimit)), true) => obs.label("try_add_node at the index limit"),
                    (Err(_), true) if $kind != 1 => obs.label("add_node at the index limit (panic)"),
                    (Ok(Ok(i)), true) => return fail("C04/add_node-no-panic-at-limit", format!("{at}: add_node returned {i:?} although the graph holds the maximum number of nodes ({n})")),
                    (r, _) => return fail("C04/add_node-result", format!("{at}: returned {r:?} (full: {full})")),
                }
            }};
        }
        match op {
            Op::AddNode(kind) => add_node!(*kind),
            Op::BulkNodes(k) => {
                for _ in 0..*k {
                    if m.nodes.len() >= lim {
                        break;
                    }
                    counter += 1;
                    let i = g.add_node(counter).index();
                    ck!(!m.nodes.contains_key(&i), "add_node-live-id", "{at}: bulk add_node returned the live id {i}");
                    m.nodes.insert(i, counter);
                }
                obs.label("bulk nodes");
            }
            Op::RemoveNode(s) => {
                if n == 0 {
                    continue;
                }
                let a = live[pick(*s, n)];
                let had_edges = m.edges.keys().any(|&(x, y)| x == a || y == a);
                let r = guarded(|| g.remove_node(ix(a)));
                match r {
                    Ok(w) => ck!(Some(w) == m.nodes.get(&a).copied(), "remove_node-result", "{at}: remove_node({a}) returned {w}"),
                    Err(e) => return fail("C04/remove_node-panics", format!("{at}: remove_node of the live node {a} panicked: {e}")),
                }
                m.nodes.remove(&a);
                pristine = false;
                m.edges.retain(|&(x, y), _| x != a && y != a);
                if had_edges {
                    removed_with_edges.push(a);
                }
            }
            Op::RemoveAbsentNode(s) => {
                let a = pick(*s, bound_before + 2);
                if m.nodes.contains_key(&a) || a > lim {
                    continue;
                }
                let r = guarded(|| g.remove_node(ix(a)));
                ck!(r.is_err(), "remove_node-no-panic", "{at}: remove_node of the absent id {a} returned {r:?}");
                obs.label("remove_node on absent id (documented panic)");
            }
            Op::SetEdge(..) | Op::SetHighEdge(_) => {
                if n == 0 {
                    continue;
                }
                let (kind, a, b) = match op {
                    Op::SetEdge(k, a, b) => (*k, live[pick(*a, n)], live[pick(*b, n)]),
                    Op::SetHighEdge(s) => (1, live[n - 1], live[n - 1 - pick(*s, n.min(3))]),
                    _ => unreachable!(),
                };
                counter += 1;
                let w = counter;
                let key = m.key(a, b);
                let old = m.edges.get(&key).copied();
                if kind == 6 && old.is_some() {
                    // Build::add_edge on an existing edge: refused, nothing changes
                    match guarded(|| Build::add_edge(&mut g, ix(a), ix(b), w)) {
                        Ok(r) => ck!(r.is_none(), "build-add_edge-duplicate", "{at}: Build::add_edge({a},{b}) on an existing edge returned {r:?}"),
                        Err(e) => return fail("C04/update_edge-panics", format!("{at}: Build::add_edge on the existing edge {a}->{b} panicked: {e}")),
                    }
                    obs.label("Build::add_edge refused (edge present)");
                    observe_common(&g, &m, &at, true)?;
                    continue;
                }
                let res: Result<Option<i32>, String> = match kind {
                    0 if old.is_none() => guarded(|| {
                        g.add_edge(ix(a), ix(b), w);
                        None
                    }),
                    0 | 1 => guarded(|| g.update_edge(ix(a), ix(b), w)),
                    2 => guarded(|| g.try_update_edge(ix(a), ix(b), w).expect("live nodes")),
                    3 => guarded(|| g.add_or_update_edge(ix(a), ix(b), w).expect("live nodes")),
                    4 | 6 if old.is_none() => guarded(|| {
                        let r = Build::add_edge(&mut g, ix(a), ix(b), w);
                        assert!(r.is_some(), "Build::add_edge returned None for a new edge");
                        None
                    }),
                    _ => guarded(|| {
                        Build::update_edge(&mut g, ix(a), ix(b), w);
                        old
                    }),
                };
                match res {
                    Ok(r) => ck!(r == old, "update_edge-result", "{at}: setting edge {a}->{b} returned {r:?}, expected previous weight {old:?}"),
                    Err(e) => return fail("C04/update_edge-panics", format!("{at}: setting edge {a}->{b} between live nodes panicked: {e}")),
                }
                m.edges.insert(key, w);
            }
            Op::RemoveEdge(s) => {
                if m.edges.is_empty() {
                    continue;
                }
                let (&(a, b), &w) = m.edges.iter().nth(pick(*s, m.edges.len())).unwrap();
                let (a, b) = if !m.directed && s % 2 == 1 { (b, a) } else { (a, b) };
                let r = guarded(|| g.remove_edge(ix(a), ix(b)));
                match r {
                    Ok(x) => ck!(x == w, "remove_edge-result", "{at}: remove_edge({a},{b}) returned {x}, expected {w}"),
                    Err(e) => return fail("C04/remove_edge-panics", format!("{at}: remove_edge of the present edge {a}->{b} panicked: {e}")),
                }
                m.edges.remove(&m.key(a, b));
            }
            Op::RemoveAbsentEdge(a, b) => {
                if n == 0 {
                    continue;
                }
                let (a, b) = (live[pick(*a, n)], live[pick(*b, n)]);
                if m.edges.contains_key(&m.key(a, b)) {
                    continue;
                }
                let r = guarded(|| g.remove_edge(ix(a), ix(b)));
                ck!(r.is_err(), "remove_edge-no-panic", "{at}: remove_edge of the absent edge {a}->{b} returned {r:?}");
                obs.label("remove_edge on absent edge (documented panic)");
            }
            Op::TryRemoveEdge(a, b) => {
                let (a, b) = (pick(*a, bound_before + 3), pick(*b, bound_before + 3));
                if a > lim || b > lim {
                    continue;
                }
                let exp = m.edges.remove(&m.key(a, b));
                let r = g.try_remove_edge(ix(a), ix(b));
                ck!(r == exp, "try_remove_edge-result", "{at}: try_remove_edge({a},{b}) returned {r:?}, expected {exp:?}");
            }
            Op::TryUpdateBeyond(s) => {
                // an id far beyond any capacity the graph can have: must be reported, nothing changes
                if lim < 5000 || n == 0 {
                    continue;
                }
                let far = 5000 + pick(*s, 1000);
                let r = g.try_update_edge(ix(live[0]), ix(far), 1);
                ck!(matches!(r, Err(MatrixError::NodeMissed(x)) if x == far), "try_update_edge-missing-node", "{at}: try_update_edge to the non-existent node {far} returned {r:?}");
                obs.label("try_update_edge with non-existent node");
            }
            Op::Clear => {
                g.clear();
                m.nodes.clear();
                m.edges.clear();
                removed_with_edges.clear();
                pristine = true;
            }
            Op::Extend(list) => {
                // only when ids are compact (the method creates nodes until the count exceeds the largest id)
                if bound_before != n || !pristine {
                    continue;
                }
                let mut items = Vec::new();
                let mut cur = n;
                for (a, b) in list {
                    let (a, b) = (pick(*a, cur + 2), pick(*b, cur + 2));
                    if a.max(b) >= lim || m.edges.contains_key(&m.key(a, b)) || items.iter().any(|&(x, y, _)| m.key(x, y) == m.key(a, b)) {
                        continue;
                    }
                    while cur <= a.max(b) {
                        m.nodes.insert(cur, 0);
                        cur += 1;
                    }
                    counter += 1;
                    items.push((a, b, counter));
                }
                for &(a, b, w) in &items {
                    m.edges.insert(m.key(a, b), w);
                }
                let r = guarded(|| g.extend_with_edges(items.iter().map(|&(a, b, w)| (ix(a), ix(b), w))));
                if let Err(e) = r {
                    return fail("C04/extend_with_edges-panics", format!("{at}: {e}"));
                }
                obs.label("extend_with_edges");
            }
            Op::NodeWeight(s, kind) => {
                if n == 0 {
                    continue;
                }
                let a = live[pick(*s, n)];
                match kind {
                    0 => *g.node_weight_mut(ix(a)) += 100_000,
                    1 => *g.get_node_weight_mut(ix(a)).expect("live node") += 100_000,
                    _ => g[ix(a)] += 100_000,
                }
                *m.nodes.get_mut(&a).unwrap() += 100_000;
                ck!(*g.node_weight(ix(a)) == m.nodes[&a] && g[ix(a)] == m.nodes[&a], "node_weight", "{at}: node_weight({a})");
            }
            Op::EdgeWeight(s, kind) => {
                if m.edges.is_empty() {
                    continue;
                }
                let (&(a, b), _) = m.edges.iter().nth(pick(*s, m.edges.len())).unwrap();
                match kind {
                    0 => *g.edge_weight_mut(ix(a), ix(b)) += 100_000,
                    1 => *g.get_edge_weight_mut(ix(a), ix(b)).expect("present edge") += 100_000,
                    _ => g[(ix(a), ix(b))] += 100_000,
                }
                *m.edges.get_mut(&(a, b)).unwrap() += 100_000;
                ck!(*g.edge_weight(ix(a), ix(b)) == m.edges[&(a, b)] && g[(ix(a), ix(b))] == m.edges[&(a, b)], "edge_weight", "{at}: edge_weight({a},{b})");
            }
            Op::CloneReplace => {
                // (NotZero is not Clone; a second read-only pass instead)
                observe_common(&g, &m, &at, m.bound() > 24)?;
            }
        }
        // capacity steps crossed with edges present
        let nb = m.bound();
        if m.edges.len() >= 3 {
            for p in [4usize, 8, 16, 32, 64] {
                if bound_before <= p && nb > p {
                    pow_crossed += 1;
                }
            }
        }
        let big = nb > 24;
        if !big || step % 8 == 7 || step + 1 == c.ops.len() {
            observe_common(&g, &m, &at, big)?;
            Ty::extra(&g, &m, &at)?;
        } else {
            ck!(g.node_count() == m.nodes.len() && g.edge_count() == m.edges.len(), "counts", "{at}: counts ({}, {}) vs model ({}, {})", g.node_count(), g.edge_count(), m.nodes.len(), m.edges.len());
        }
    }
    obs.nontrivial = pow_crossed >= 1 || reused_with_edges;
    obs.label_if(pow_crossed >= 1, "crossed a capacity step with >= 3 edges");
    obs.label_if(reused_with_edges, "reused the id of a removed node that had edges");
    Ok(obs)
}

pub fn run(c: &Case) -> Outcome {
    macro_rules! widths {
        ($ty:ty, $null:ty) => {
            match c.width % 3 {
                0 => run_cfg::<$ty, $null, u8>(c),
                1 => run_cfg::<$ty, $null, u16>(c),
                _ => run_cfg::<$ty, $null, u32>(c),
            }
        };
    }
    match (c.directed, c.notzero) {
        (true, false) => widths!(Directed, Option<i32>),
        (true, true) => widths!(Directed, NotZero<i32>),
        (false, false) => widths!(Undirected, Option<i32>),
        (false, true) => widths!(Undirected, NotZero<i32>),
    }
}

/// libFuzzer entry: bring a decoded case into the domain of `strategy` / `capacity_strategy`
pub fn fuzz_domain(c: &mut Case) -> bool {
    c.width %= 3;
    c.cap %= 11;
    if c.ops.iter().any(|o| matches!(o, Op::BulkNodes(k) if *k >= 20)) {
        // large fills belong to the u8 capacity class
        c.width = 0;
        c.cap = 0;
        c.ops.truncate(10);
        for o in c.ops.iter_mut() {
            if let Op::BulkNodes(k) = o {
                *k = (*k).max(100);
            }
        }
    } else {
        c.ops.truncate(160);
    }
    for o in c.ops.iter_mut() {
        match o {
            Op::AddNode(k) => *k %= 3,
            Op::SetEdge(k, ..) => *k %= 7,
            Op::NodeWeight(_, k) | Op::EdgeWeight(_, k) => *k %= 3,
            Op::BulkNodes(k) if *k < 20 => *k = 1 + *k % 19,
            Op::Extend(v) => v.truncate(3),
            _ => {}
        }
    }
    true
}

/// cases decoded from byte strings (see `engine::decoded_strategy`)
pub fn bytes_strategy(_tier: Tier) -> BoxedStrategy<Case> {
    decoded_strategy(fuzz_domain)
}

const SEL: [u16; 3] = [0, 21846, 43691];
/// history length of the bounded-exhaustive sub-check
fn seq_len(tier: Tier) -> usize {
    if tier == Tier::Quick {
        5
    } else {
        6
    }
}
/// alphabet of the bounded-exhaustive sub-check
fn alphabet() -> Vec<Op> {
    let mut a = vec![Op::AddNode(0)];
    for x in SEL {
        a.push(Op::RemoveNode(x));
        a.push(Op::RemoveEdge(x));
        for y in SEL {
            a.push(Op::SetEdge(0, x, y));
        }
    }
    a
}
fn enum_count(tier: Tier) -> u64 {
    4 * (alphabet().len() as u64).pow(seq_len(tier) as u32)
}
fn enum_make(tier: Tier, i: u64) -> Case {
    let a = alphabet();
    let mut ops = vec![Op::AddNode(0), Op::AddNode(0)];
    ops.extend(crate::util::digits(i / 4, a.len() as u64, seq_len(tier)).into_iter().map(|d| a[d].clone()));
    Case { directed: i % 2 == 0, notzero: (i / 2) % 2 == 0, width: 1, cap: 0, ops }
}

pub fn property() -> Property {
    Property {
        id: "C04",
        rule: "operation histories (<=60 ops quick / <=160 thorough) over MatrixGraph for Directed/Undirected x Option/NotZero null element x u8/u16/u32 indices, started from default() or with_capacity(0..=9): add_node/try_add_node/Build::add_node, remove_node (live; absent => documented panic), add_edge/update_edge/try_update_edge/add_or_update_edge/Build paths between live nodes (incl. the highest ids, so rows relocate at the next growth), remove_edge (present; absent => documented panic), try_remove_edge with arbitrary ids, clear, extend_with_edges, weight writes, clone, bulk node additions across the 4/8/16/32/64 steps and up to the u8 limit; after every step counts, has_edge/get_edge_weight/is_adjacent for all pairs below bound+2, neighbors, edges, directed in-lists, node_identifiers, node_references, edge_references and node_bound are compared with a BTreeMap model in which a new id may be any non-live id; non-trivial = the history crosses a capacity step with >= 3 edges present or reuses the id of a removed node that had edges; distinct by fingerprint of the op sequence; the *-from-bytes sub-checks feed the same interpreter with histories decoded from generated byte strings by the libFuzzer codec (all operation kinds equally likely, up to the thorough-tier length); bounded-exhaustive sub-check: every history of 5 (thorough: 6) operations over a 16-operation alphabet (add node, remove node / remove edge / set edge at the first, middle and last position) after two initial nodes, both edge types and null representations",
        assumptions: &[
            "edge operations naming a non-existent node are generated only where the behaviour is documented consistently (remove_node/remove_edge panics, try_update_edge beyond any capacity); update_edge/add_or_update_edge on an absent in-capacity id is not generated",
            "add_edge on an existing edge (documented panic that leaves the new weight behind) is not generated",
        ],
        both_profiles: false,
        subs: vec![
            sub_fuzz("matrix/history", 400_000, 5_000_000, strategy, run, fuzz_domain),
            sub_enum("matrix/all-short-histories", enum_count, enum_make, run), sub("matrix/history-from-bytes", 300_000, 5_000_000, bytes_strategy, run),
            sub("matrix/u8-capacity", 30_000, 1_000_000, capacity_strategy, run),
        ],
    }
}
