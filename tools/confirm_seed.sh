#!/bin/sh
# confirm_seed.sh <worktree> <seed-dir>: confirm a seeded change independently, in a scratch worktree:
#   suite green with patch; demo fails with patch; demo passes without.  Prints one summary line.
WT=$1; SD=$2
cd "$WT" || exit 2
git checkout -q -- . ; rm -f tests/seed_demo.rs
feat=""
grep -q "serde" "$SD/demo.rs" 2>/dev/null && grep -qi "features serde-1\|--features" "$SD/notes.md" 2>/dev/null && feat="--features serde-1"
git apply "$SD/patch.diff" || { echo "CONFIRM $SD: patch does not apply"; exit 1; }
suite=$(cargo nextest run --workspace --no-fail-fast --tool-config-file pb:/w/lib/nextest.toml --profile pb --test-threads 8 --offline 2>&1 | grep -E "Summary" | head -1)
cp "$SD/demo.rs" tests/seed_demo.rs
cargo test --offline $feat --test seed_demo >/tmp/confirm_with.$$ 2>&1; with=$?
git checkout -q -- .
cargo test --offline $feat --test seed_demo >/tmp/confirm_without.$$ 2>&1; without=$?
rm -f tests/seed_demo.rs /tmp/confirm_with.$$ /tmp/confirm_without.$$
echo "CONFIRM $SD: suite=[$suite] demo_with_patch_rc=$with demo_without_patch_rc=$without"
