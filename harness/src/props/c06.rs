//! C06 — every graph type and adaptor shows one consistent graph through the visit traits.

use crate::agraph::*;
use crate::engine::*;
use fixedbitset::FixedBitSet;
use petgraph::adj::List;
use petgraph::data::DataMap;
use petgraph::graph::{Graph, IndexType, NodeIndex};
use petgraph::graph::Frozen;
use petgraph::visit::{
    EdgeCount, EdgeFiltered, EdgeIndexable, EdgeRef, GetAdjacencyMatrix, GraphProp, IntoEdgeReferences, IntoEdges,
    IntoEdgesDirected, IntoNeighbors, IntoNeighborsDirected, IntoNodeIdentifiers, IntoNodeReferences,
    NodeCompactIndexable, NodeCount, NodeFiltered, NodeIndexable, NodeRef, Reversed, UndirectedAdaptor, VisitMap,
    Visitable,
};
use petgraph::Direction::{Incoming, Outgoing};
use petgraph::{Directed, EdgeType, Undirected};
use proptest::prelude::*;
use serde::{Deserialize, Serialize};
use hashbrown::HashSet;
use std::hash::Hash;

#[derive(Debug, Clone, Serialize, Deserialize)]
pub struct Case {
    pub g: RawGraph,
    pub base: u8,
    pub salt: u8,
    pub nmask: u16,
    pub emask: u64,
}

pub fn strategy(tier: Tier) -> BoxedStrategy<Case> {
    let (n, m) = if tier == Tier::Quick { (9, 20) } else { (14, 36) };
    (raw_graph(0, n, m, None), any::<u8>(), any::<u8>(), any::<u16>(), any::<u64>())
        .prop_map(|(g, base, salt, nmask, emask)| Case { g, base, salt, nmask, emask })
        .boxed()
}

trait Nid: Copy + Eq + Hash + std::fmt::Debug {}
impl<T: Copy + Eq + Hash + std::fmt::Debug> Nid for T {}

macro_rules! ck {
    ($cond:expr, $sig:expr, $($arg:tt)*) => {
        if !($cond) {
            return Err(Failure { sig: format!("C06/{}", $sig), msg: format!($($arg)*) });
        }
    };
}

fn srt<T: Ord + Clone>(v: &[T]) -> Vec<T> {
    let mut v = v.to_vec();
    v.sort();
    v
}

type R = Result<(), Failure>;

/// expected incident list of `l` as (source-as-reported, target-as-reported, tag)
fn expected_incident(a: &AGraph, l: usize, out: bool) -> Vec<(usize, usize, i32)> {
    let mut v = Vec::new();
    for &(x, y, t) in &a.edges {
        if a.directed {
            if out && x == l {
                v.push((l, y, t));
            }
            if !out && y == l {
                v.push((x, l, t));
            }
        } else if x == l || y == l {
            let o = if x == l { y } else { x };
            v.push(if out { (l, o, t) } else { (o, l, t) });
        }
    }
    v
}

/// iterator-protocol laws (util::iter_laws_by) for one of the trait iterators of a view
macro_rules! laws {
    ($w:expr, $what:expr, $mk:expr, $cap:expr, $key:expr) => {
        if let Err(e) = crate::util::iter_laws_by($mk, $cap, $key) {
            return Err(Failure { sig: format!("C06/iterator-protocol/{}", $what), msg: format!("{}: {}: {e}", $w, $what) });
        }
    };
}

fn c_nodes<G>(g: G, v: &View<G::NodeId>, w: &str) -> R
where
    G: IntoNodeIdentifiers + NodeIndexable + Copy,
    G::NodeId: Nid,
{
    let ids: Vec<G::NodeId> = g.node_identifiers().take(v.a.n + 3).collect();
    laws!(w, "node_identifiers", || g.node_identifiers(), v.a.n + 3, |x: &G::NodeId| *x);
    let mut labels: Vec<usize> = Vec::new();
    for &id in &ids {
        labels.push(v.label(id, w).map_err(|f| Failure { sig: "C06/node_identifiers-unknown".into(), msg: format!("{w}: {}", f.msg) })?);
    }
    ck!(srt(&labels) == v.live, "node_identifiers", "{w}: node_identifiers() yields labels {labels:?}, expected {:?}", v.live);
    let bound = g.node_bound();
    for &id in &ids {
        let i = g.to_index(id);
        ck!(i < bound, "to_index-beyond-bound", "{w}: to_index({id:?}) = {i} >= node_bound() = {bound}");
        ck!(g.from_index(i) == id, "from_index", "{w}: from_index(to_index({id:?})) = {:?}", g.from_index(i));
    }
    let mut ix: Vec<usize> = ids.iter().map(|&id| g.to_index(id)).collect();
    ix.sort();
    ix.dedup();
    ck!(ix.len() == ids.len(), "to_index-not-injective", "{w}: to_index is not injective on the nodes");
    Ok(())
}

fn c_count<G>(g: &G, v: &View<G::NodeId>, w: &str) -> R
where
    G: NodeCount,
    G::NodeId: Nid,
{
    ck!(g.node_count() == v.live.len(), "node_count", "{w}: node_count() = {}, expected {}", g.node_count(), v.live.len());
    Ok(())
}

fn c_compact<G>(g: G, v: &View<G::NodeId>, w: &str) -> R
where
    G: NodeCompactIndexable + IntoNodeIdentifiers + Copy,
    G::NodeId: Nid,
{
    let mut ix: Vec<usize> = g.node_identifiers().map(|id| g.to_index(id)).collect();
    ix.sort();
    ck!(ix == (0..g.node_bound()).collect::<Vec<_>>() && g.node_bound() == v.live.len(), "compact-indexable", "{w}: node indices {ix:?} are not exactly 0..node_bound() = {}", g.node_bound());
    Ok(())
}

fn c_node_refs<G>(g: G, v: &View<G::NodeId>, w: &str) -> R
where
    G: IntoNodeReferences + Copy,
    G::NodeId: Nid,
{
    laws!(w, "node_references", || g.node_references(), v.a.n + 3, |r: &G::NodeRef| r.id());
    let mut labels = Vec::new();
    for r in g.node_references().take(v.a.n + 3) {
        labels.push(v.label(r.id(), w)?);
    }
    ck!(srt(&labels) == v.live, "node_references", "{w}: node_references() yields labels {labels:?}, expected {:?}", v.live);
    Ok(())
}

fn c_edge_refs<G>(g: G, v: &View<G::NodeId>, w: &str) -> R
where
    G: IntoEdgeReferences + Copy,
    G::NodeId: Nid,
    G::EdgeRef: EdgeRef<Weight = i32>,
{
    let a = v.a;
    laws!(w, "edge_references", || g.edge_references(), 2 * a.m() + 4, |e: &G::EdgeRef| (e.source(), e.target(), *e.weight()));
    let mut got: Vec<(usize, usize, i32)> = Vec::new();
    for e in g.edge_references().take(2 * a.m() + 4) {
        let (s, t) = (v.label(e.source(), w)?, v.label(e.target(), w)?);
        got.push(if a.directed || s <= t { (s, t, *e.weight()) } else { (t, s, *e.weight()) });
    }
    let exp: Vec<(usize, usize, i32)> = a.edges.iter().map(|&(s, t, x)| if a.directed || s <= t { (s, t, x) } else { (t, s, x) }).collect();
    ck!(srt(&got) == srt(&exp), "edge_references", "{w}: edge_references() = {got:?}, expected {exp:?}");
    Ok(())
}

fn c_edge_count<G>(g: &G, v: &View<G::NodeId>, w: &str) -> R
where
    G: EdgeCount,
    G::NodeId: Nid,
{
    ck!(g.edge_count() == v.a.m(), "edge_count", "{w}: edge_count() = {}, expected {}", g.edge_count(), v.a.m());
    Ok(())
}

fn c_edge_indexable<G>(g: G, v: &View<G::NodeId>, w: &str) -> R
where
    G: IntoEdgeReferences + EdgeIndexable + Copy,
    G::NodeId: Nid,
    G::EdgeId: PartialEq + std::fmt::Debug,
{
    let mut seen = Vec::new();
    for e in g.edge_references().take(2 * v.a.m() + 4) {
        let i = EdgeIndexable::to_index(&g, e.id());
        ck!(i < g.edge_bound(), "edge-to_index-beyond-bound", "{w}: to_index({:?}) = {i} >= edge_bound() = {}", e.id(), g.edge_bound());
        ck!(EdgeIndexable::from_index(&g, i) == e.id(), "edge-from_index", "{w}: from_index(to_index({:?})) = {:?}", e.id(), EdgeIndexable::from_index(&g, i));
        ck!(!seen.contains(&i), "edge-to_index-not-injective", "{w}: edge index {i} used twice");
        seen.push(i);
    }
    Ok(())
}

fn c_neighbors<G>(g: G, v: &View<G::NodeId>, w: &str) -> R
where
    G: IntoNeighbors + Copy,
    G::NodeId: Nid,
{
    for &l in &v.live {
        laws!(w, "neighbors", || g.neighbors(v.id(l)), 2 * v.a.m() + 4, |x: &G::NodeId| *x);
        let mut got = Vec::new();
        for x in g.neighbors(v.id(l)).take(2 * v.a.m() + 4) {
            got.push(v.label(x, w)?);
        }
        let exp: Vec<usize> = expected_incident(v.a, l, true).iter().map(|t| t.1).collect();
        ck!(srt(&got) == srt(&exp), "neighbors", "{w}: neighbors({l}) = {got:?}, expected {exp:?}");
    }
    Ok(())
}

fn c_neighbors_directed<G>(g: G, v: &View<G::NodeId>, w: &str) -> R
where
    G: IntoNeighborsDirected + Copy,
    G::NodeId: Nid,
{
    for &l in &v.live {
        for (d, out) in [(Outgoing, true), (Incoming, false)] {
            laws!(w, "neighbors_directed", || g.neighbors_directed(v.id(l), d), 2 * v.a.m() + 4, |x: &G::NodeId| *x);
            let mut got = Vec::new();
            for x in g.neighbors_directed(v.id(l), d).take(2 * v.a.m() + 4) {
                got.push(v.label(x, w)?);
            }
            let exp: Vec<usize> = expected_incident(v.a, l, out).iter().map(|t| if out { t.1 } else { t.0 }).collect();
            ck!(srt(&got) == srt(&exp), "neighbors_directed", "{w}: neighbors_directed({l}, {d:?}) = {got:?}, expected {exp:?}");
        }
    }
    Ok(())
}

fn c_edges<G>(g: G, v: &View<G::NodeId>, w: &str) -> R
where
    G: IntoEdges + Copy,
    G::NodeId: Nid,
    G::EdgeRef: EdgeRef<Weight = i32>,
{
    for &l in &v.live {
        laws!(w, "edges", || g.edges(v.id(l)), 2 * v.a.m() + 4, |e: &G::EdgeRef| (e.source(), e.target(), *e.weight()));
        let mut got = Vec::new();
        for e in g.edges(v.id(l)).take(2 * v.a.m() + 4) {
            got.push((v.label(e.source(), w)?, v.label(e.target(), w)?, *e.weight()));
        }
        let exp = expected_incident(v.a, l, true);
        ck!(srt(&got) == srt(&exp), "edges", "{w}: edges({l}) = {got:?}, expected {exp:?} as (source, target, tag)");
    }
    Ok(())
}

fn c_edges_directed<G>(g: G, v: &View<G::NodeId>, w: &str) -> R
where
    G: IntoEdgesDirected + Copy,
    G::NodeId: Nid,
    G::EdgeRef: EdgeRef<Weight = i32>,
{
    for &l in &v.live {
        for (d, out) in [(Outgoing, true), (Incoming, false)] {
            laws!(w, "edges_directed", || g.edges_directed(v.id(l), d), 2 * v.a.m() + 4, |e: &G::EdgeRef| (e.source(), e.target(), *e.weight()));
            let mut got = Vec::new();
            for e in g.edges_directed(v.id(l), d).take(2 * v.a.m() + 4) {
                got.push((v.label(e.source(), w)?, v.label(e.target(), w)?, *e.weight()));
            }
            let exp = expected_incident(v.a, l, out);
            ck!(srt(&got) == srt(&exp), "edges_directed", "{w}: edges_directed({l}, {d:?}) = {got:?}, expected {exp:?} as (source, target, tag)");
        }
    }
    Ok(())
}

fn c_adj<G>(g: &G, v: &View<G::NodeId>, w: &str) -> R
where
    G: GetAdjacencyMatrix,
    G::NodeId: Nid,
{
    let m = g.adjacency_matrix();
    let adj = v.a.adj_matrix();
    for &x in &v.live {
        for &y in &v.live {
            let got = g.is_adjacent(&m, v.id(x), v.id(y));
            ck!(got == adj[x][y], "is_adjacent", "{w}: is_adjacent({x},{y}) = {got}, expected {}", adj[x][y]);
        }
    }
    Ok(())
}

fn c_visitable<G>(g: &G, v: &View<G::NodeId>, w: &str) -> R
where
    G: Visitable,
    G::NodeId: Nid,
{
    let mut map = g.visit_map();
    for round in 0..2 {
        for &l in &v.live {
            ck!(!map.is_visited(&v.id(l)), "visit_map", "{w}: node {l} already visited in a fresh/reset map (round {round})");
            ck!(map.visit(v.id(l)), "visit_map", "{w}: visit({l}) returned false the first time");
            ck!(map.is_visited(&v.id(l)) && !map.visit(v.id(l)), "visit_map", "{w}: visit map lost node {l}");
        }
        g.reset_map(&mut map);
    }
    Ok(())
}

fn c_prop<G>(g: &G, v: &View<G::NodeId>, w: &str) -> R
where
    G: GraphProp,
    G::NodeId: Nid,
{
    ck!(g.is_directed() == v.a.directed, "is_directed", "{w}: is_directed() = {}", g.is_directed());
    Ok(())
}

fn c_datamap<G>(g: &G, v: &View<G::NodeId>, w: &str, nw: fn(&G::NodeWeight) -> usize) -> R
where
    G: DataMap,
    G::NodeId: Nid,
{
    for &l in &v.live {
        ck!(g.node_weight(v.id(l)).map(nw) == Some(l), "datamap-node_weight", "{w}: DataMap::node_weight({l})");
    }
    Ok(())
}

/// UndirectedAdaptor: neighbours / edges of the symmetrised graph; a self-loop may show once or twice.
fn c_undirected_adaptor<G>(g: G, v: &View<G::NodeId>, w: &str, obs: &mut Obs) -> R
where
    G: IntoNeighbors + IntoEdges + GraphProp + Copy,
    G::NodeId: Nid,
    G::EdgeRef: EdgeRef<Weight = i32>,
{
    ck!(!g.is_directed(), "undirected-adaptor-is_directed", "{w}: is_directed() is true");
    let a = v.a;
    for &l in &v.live {
        let mut exp: Vec<usize> = Vec::new();
        let mut loops = 0;
        for &(x, y, _) in &a.edges {
            if x == l && y == l {
                loops += 1;
            } else if x == l {
                exp.push(y);
            } else if y == l {
                exp.push(x);
            }
        }
        let mut got = Vec::new();
        for x in g.neighbors(v.id(l)).take(2 * a.m() + 4) {
            got.push(v.label(x, w)?);
        }
        let got_loops = got.iter().filter(|&&x| x == l).count();
        let rest: Vec<usize> = got.iter().copied().filter(|&x| x != l).collect();
        ck!(srt(&rest) == srt(&exp) && got_loops >= loops && got_loops <= 2 * loops, "undirected-adaptor-neighbors", "{w}: neighbors({l}) = {got:?}, expected {exp:?} plus {loops} self-loop(s)");
        // edges(l).map(target) must agree with neighbors(l): every edge is reported from l's point of view
        let mut tg = Vec::new();
        let mut src_ok = true;
        for e in g.edges(v.id(l)).take(2 * a.m() + 4) {
            tg.push(v.label(e.target(), w)?);
            src_ok &= v.label(e.source(), w)? == l;
        }
        if !(src_ok && srt(&tg) == srt(&got)) {
            // edges as an unordered-pair multiset must still be right; only the orientation is the known defect
            let mut pairs = Vec::new();
            for e in g.edges(v.id(l)).take(2 * a.m() + 4) {
                let (s, t) = (v.label(e.source(), w)?, v.label(e.target(), w)?);
                ck!(s == l || t == l, "undirected-adaptor-edges", "{w}: edges({l}) yields the edge {s}-{t}, which is not incident");
                pairs.push(if s == l { t } else { s });
            }
            ck!(srt(&pairs) == srt(&got), "undirected-adaptor-edges", "{w}: edges({l}) other endpoints {pairs:?} vs neighbors {got:?}");
            if obs.deferred.is_empty() {
                obs.deferred.push(Failure {
                    sig: "C06/undirected-adaptor-edges-not-oriented".into(),
                    msg: format!("{w}: edges({l}) reports targets {tg:?} (all sources == {l}: {src_ok}) but neighbors({l}) = {got:?}: incoming edges are not re-oriented"),
                });
            }
        }
    }
    obs.label("UndirectedAdaptor");
    Ok(())
}

fn derive_rev(a: &AGraph) -> AGraph {
    AGraph { directed: a.directed, n: a.n, edges: a.edges.iter().map(|&(x, y, t)| (y, x, t)).collect() }
}
fn derive_nodes(a: &AGraph, keep: &[bool]) -> AGraph {
    AGraph { directed: a.directed, n: a.n, edges: a.edges.iter().copied().filter(|&(x, y, _)| keep[x] && keep[y]).collect() }
}
fn derive_edges(a: &AGraph, emask: u64) -> AGraph {
    AGraph { directed: a.directed, n: a.n, edges: a.edges.iter().copied().filter(|&(_, _, t)| (emask >> (t as u64 % 64)) & 1 == 1).collect() }
}

/// unique tags as weights; simple = drop parallel edges
fn tagged(a: &AGraph, simple: bool) -> AGraph {
    let mut out = AGraph { directed: a.directed, n: a.n, edges: Vec::new() };
    for (i, &(x, y, _)) in a.edges.iter().enumerate() {
        if simple && out.edges.iter().any(|&(p, q, _)| (p == x && q == y) || (!a.directed && p == y && q == x)) {
            continue;
        }
        out.edges.push((x, y, i as i32));
    }
    out
}

/// `Graph` whose node indices were renumbered by removals: decoy nodes are added first and removed last.
fn graph_renumbered<Ty: EdgeType, Ix: IndexType>(a: &AGraph, salt: u64) -> (Graph<usize, i32, Ty, Ix>, Vec<NodeIndex<Ix>>) {
    let mut g: Graph<usize, i32, Ty, Ix> = Graph::with_capacity(0, 0);
    let decoys = (salt % 3) as usize;
    let mut d = Vec::new();
    for _ in 0..decoys {
        d.push(g.add_node(usize::MAX));
    }
    let ids: Vec<NodeIndex<Ix>> = (0..a.n).map(|i| g.add_node(i)).collect();
    if salt % 4 == 3 && a.n > 0 {
        // an earlier generation of edges, wiped by clear_edges before the real ones are added
        for (k, &(x, y, _)) in a.edges.iter().enumerate().take(6) {
            g.add_edge(ids[y], ids[x], -2);
            g.add_edge(ids[0], ids[(x + k) % a.n], -3);
        }
        g.clear_edges();
    }
    for (k, &(x, y, t)) in a.edges.iter().enumerate() {
        if decoys > 0 && k % 3 == 0 {
            g.add_edge(d[0], ids[x], -1);
        }
        g.add_edge(ids[x], ids[y], t);
    }
    for x in d.into_iter().rev() {
        g.remove_node(x);
    }
    // labels are the node weights now: recover the correspondence
    let mut map = vec![NodeIndex::end(); a.n];
    for i in g.node_indices() {
        map[g[i]] = i;
    }
    (g, map)
}

macro_rules! run_checks {
    ($g:expr, $v:expr, $w:expr; $($f:ident),* $(,)?) => {{
        $( $f($g, $v, $w)?; )*
    }};
}

macro_rules! filtered_views {
    ($gref:expr, $a:expr, $ids:expr, $c:expr, $name:expr, $obs:expr, hashset) => {{
        let keep: Vec<bool> = (0..$a.n).map(|i| ($c.nmask >> (i % 16)) & 1 == 1).collect();
        let sub = derive_nodes($a, &keep);
        let live: Vec<usize> = (0..$a.n).filter(|&i| keep[i]).collect();
        let ids_opt: Vec<Option<_>> = (0..$a.n).map(|i| if keep[i] { Some($ids[i]) } else { None }).collect();
        let v = View::new(&sub, live.clone(), ids_opt.clone());
        // closure predicate
        let idv = $ids.clone();
        let kp = keep.clone();
        let f = NodeFiltered::from_fn($gref, move |x| idv.iter().position(|&y| y == x).map_or(false, |l| kp[l]));
        let w = format!("NodeFiltered<&{}> (closure)", $name);
        run_checks!(&f, &v, &w; c_nodes, c_node_refs, c_edge_refs, c_neighbors, c_neighbors_directed, c_edges, c_edges_directed);
        c_visitable(&f, &v, &w)?;
        c_prop(&f, &v, &w)?;
        // HashSet predicate
        let set: HashSet<_> = live.iter().map(|&l| $ids[l]).collect();
        let f2 = NodeFiltered($gref, set);
        let w = format!("NodeFiltered<&{}> (HashSet)", $name);
        run_checks!(&f2, &v, &w; c_nodes, c_node_refs, c_edge_refs, c_neighbors, c_neighbors_directed, c_edges, c_edges_directed);
        // depth 2: Reversed over the filtered view
        let rsub = derive_rev(&sub);
        let rv = View::new(&rsub, live.clone(), ids_opt.clone());
        let w = format!("Reversed<&NodeFiltered<&{}>>", $name);
        run_checks!(Reversed(&f), &rv, &w; c_nodes, c_edge_refs, c_neighbors, c_neighbors_directed, c_edges, c_edges_directed);
        $obs.label_if(!sub.edges.is_empty(), "depth-2 view with a surviving edge");
    }};
}

macro_rules! edge_filtered_views {
    ($gref:expr, $a:expr, $ids:expr, $c:expr, $name:expr) => {{
        let sub = derive_edges($a, $c.emask);
        let v = View::full(&sub, $ids.clone());
        let em = $c.emask;
        let f = EdgeFiltered::from_fn($gref, move |e| (em >> (*e.weight() as u64 % 64)) & 1 == 1);
        let w = format!("EdgeFiltered<&{}>", $name);
        run_checks!(&f, &v, &w; c_nodes, c_node_refs, c_edge_refs, c_neighbors, c_neighbors_directed, c_edges, c_edges_directed);
        c_visitable(&f, &v, &w)?;
        let rsub = derive_rev(&sub);
        let rv = View::full(&rsub, $ids.clone());
        let w = format!("Reversed<&EdgeFiltered<&{}>>", $name);
        run_checks!(Reversed(&f), &rv, &w; c_nodes, c_edge_refs, c_neighbors, c_neighbors_directed, c_edges, c_edges_directed);
    }};
}

macro_rules! reversed_views {
    ($gref:expr, $a:expr, $ids:expr, $c:expr, $name:expr, $obs:expr) => {{
        let ra = derive_rev($a);
        let rv = View::full(&ra, $ids.clone());
        let w = format!("Reversed<&{}>", $name);
        run_checks!(Reversed($gref), &rv, &w; c_nodes, c_node_refs, c_edge_refs, c_neighbors, c_neighbors_directed, c_edges, c_edges_directed);
        c_adj(&Reversed($gref), &rv, &w)?;
        c_visitable(&Reversed($gref), &rv, &w)?;
        c_count(&Reversed($gref), &rv, &w)?;
        // a reversed edge reference unwraps to the base reference: endpoints swapped back, same weight
        for e in Reversed($gref).edge_references().take(2 * $a.m() + 4) {
            let u = e.as_unreversed();
            ck!(u.source() == e.target() && u.target() == e.source() && u.weight() == e.weight(), "reversed-edge-unwrap", "{w}: as_unreversed() of {:?}->{:?} is {:?}->{:?}", e.source(), e.target(), u.source(), u.target());
            let (s0, t0) = (e.source(), e.target());
            let o = e.into_unreversed();
            ck!(o.source() == t0 && o.target() == s0, "reversed-edge-unwrap", "{w}: into_unreversed() of {s0:?}->{t0:?} is {:?}->{:?}", o.source(), o.target());
        }
        let v = View::full($a, $ids.clone());
        let w = format!("Reversed<Reversed<&{}>>", $name);
        run_checks!(Reversed(Reversed($gref)), &v, &w; c_nodes, c_edge_refs, c_neighbors, c_neighbors_directed, c_edges, c_edges_directed);
        c_adj(&Reversed(Reversed($gref)), &v, &w)?;
        if $a.directed {
            // EdgeFiltered over Reversed, NodeFiltered over Reversed
            let em = $c.emask;
            let rsub = derive_edges(&ra, em);
            let rsv = View::full(&rsub, $ids.clone());
            let f = EdgeFiltered::from_fn(Reversed($gref), move |e| (em >> (*e.weight() as u64 % 64)) & 1 == 1);
            let w = format!("EdgeFiltered<Reversed<&{}>>", $name);
            run_checks!(&f, &rsv, &w; c_nodes, c_edge_refs, c_neighbors, c_neighbors_directed, c_edges, c_edges_directed);
            let und = AGraph { directed: false, n: $a.n, edges: $a.edges.clone() };
            let uv = View::full(&und, $ids.clone());
            c_undirected_adaptor(UndirectedAdaptor($gref), &uv, &format!("UndirectedAdaptor<&{}>", $name), $obs)?;
            c_undirected_adaptor(UndirectedAdaptor(Reversed($gref)), &uv, &format!("UndirectedAdaptor<Reversed<&{}>>", $name), $obs)?;
            c_nodes(UndirectedAdaptor($gref), &uv, &format!("UndirectedAdaptor<&{}>", $name))?;
        }
        $obs.label("Reversed / depth-2");
    }};
}

pub fn run(c: &Case) -> Outcome {
    let a0 = c.g.build(&GOpts::new(true, true, 1, 1));
    let n = a0.n;
    let mut obs = Obs::default();
    let salt = c.salt as u64 + 1;
    let base = c.base % 12;
    match (base, a0.directed) {
        (0, _) | (1, _) => {
            let a = tagged(&a0, false);
            macro_rules! graph_ty {
                ($ty:ty, $ix:ty) => {{
                    let (mut g, ids) = graph_renumbered::<$ty, $ix>(&a, salt);
                    let v = View::full(&a, ids.clone());
                    let w = "Graph";
                    run_checks!(&g, &v, w; c_nodes, c_compact, c_node_refs, c_edge_refs, c_edge_indexable, c_neighbors, c_neighbors_directed, c_edges, c_edges_directed);
                    c_count(&g, &v, w)?;
                    c_edge_count(&g, &v, w)?;
                    c_adj(&g, &v, w)?;
                    c_visitable(&g, &v, w)?;
                    c_prop(&g, &v, w)?;
                    c_datamap(&g, &v, w, |x| *x)?;
                    reversed_views!(&g, &a, ids, c, "Graph", &mut obs);
                    filtered_views!(&g, &a, ids, c, "Graph", obs, hashset);
                    edge_filtered_views!(&g, &a, ids, c, "Graph");
                    // FixedBitSet predicate
                    let mut bits = FixedBitSet::with_capacity(g.node_count());
                    let keep: Vec<bool> = (0..n).map(|i| (c.nmask >> (i % 16)) & 1 == 1).collect();
                    for l in 0..n {
                        bits.set(ids[l].index(), keep[l]);
                    }
                    let sub = derive_nodes(&a, &keep);
                    let sv = View::new(&sub, (0..n).filter(|&i| keep[i]).collect(), (0..n).map(|i| if keep[i] { Some(ids[i]) } else { None }).collect());
                    let fb = NodeFiltered(&g, bits);
                    run_checks!(&fb, &sv, "NodeFiltered<&Graph> (FixedBitSet)"; c_nodes, c_edge_refs, c_neighbors, c_neighbors_directed, c_edges, c_edges_directed);
                    // &mut delegation (GraphBase/Data/DataMap only) and Frozen (non-consuming traits)
                    {
                        let m = &mut g;
                        c_datamap(&m, &v, "&mut Graph", |x| *x)?;
                    }
                    {
                        let fz = Frozen::new(&mut g);
                        let w = "Frozen<Graph>";
                        c_count(&fz, &v, w)?;
                        c_edge_count(&fz, &v, w)?;
                        c_adj(&fz, &v, w)?;
                        c_visitable(&fz, &v, w)?;
                        c_prop(&fz, &v, w)?;
                        c_datamap(&fz, &v, w, |x| *x)?;
                        for l in 0..n {
                            ck!(NodeIndexable::to_index(&fz, ids[l]) == ids[l].index() && NodeIndexable::from_index(&fz, ids[l].index()) == ids[l] && ids[l].index() < fz.node_bound(), "frozen-node-indexable", "Frozen: NodeIndexable for node {l}");
                        }
                    }
                    // weights may be written through Frozen (IndexMut, index_twice_mut, DataMapMut); the
                    // structure and every other weight stay as they were
                    if n >= 2 {
                        use petgraph::data::DataMapMut;
                        {
                            let mut fz = Frozen::new(&mut g);
                            fz[ids[0]] += 1000;
                            let (x, y) = fz.index_twice_mut(ids[0], ids[1]);
                            *x += 1000;
                            *y += 5000;
                            if let Some(wt) = fz.node_weight_mut(ids[1]) {
                                *wt += 5000;
                            }
                        }
                        ck!(g[ids[0]] == 2000 && g[ids[1]] == 10001, "frozen-write", "weights written through Frozen: node 0 = {}, node 1 = {} (expected 2000, 10001)", g[ids[0]], g[ids[1]]);
                        g[ids[0]] = 0;
                        g[ids[1]] = 1;
                        run_checks!(&g, &v, "Graph after writes through Frozen"; c_nodes, c_node_refs, c_edge_refs, c_neighbors);
                        c_datamap(&g, &v, "Graph after writes through Frozen", |x| *x)?;
                    }
                    obs.label("Graph (renumbered by removals)");
                }};
            }
            match (a.directed, base) {
                (true, 0) => graph_ty!(Directed, u32),
                (true, _) => graph_ty!(Directed, u8),
                (false, 0) => graph_ty!(Undirected, u32),
                (false, _) => graph_ty!(Undirected, u16),
            }
        }
        (2, _) | (3, _) => {
            let a = tagged(&a0, false);
            macro_rules! stable_ty {
                ($ty:ty) => {{
                    let (mut g, ids) = to_stable_holes::<i32, $ty, u32>(&a, salt, |w| w);
                    let v = View::full(&a, ids.clone());
                    let w = "StableGraph";
                    run_checks!(&g, &v, w; c_nodes, c_node_refs, c_edge_refs, c_edge_indexable, c_neighbors, c_neighbors_directed, c_edges, c_edges_directed);
                    c_count(&g, &v, w)?;
                    c_edge_count(&g, &v, w)?;
                    c_adj(&g, &v, w)?;
                    c_visitable(&g, &v, w)?;
                    c_prop(&g, &v, w)?;
                    c_datamap(&g, &v, w, |x| *x)?;
                    reversed_views!(&g, &a, ids, c, "StableGraph", &mut obs);
                    filtered_views!(&g, &a, ids, c, "StableGraph", obs, hashset);
                    edge_filtered_views!(&g, &a, ids, c, "StableGraph");
                    {
                        let m = &mut g;
                        c_datamap(&m, &v, "&mut StableGraph", |x| *x)?;
                    }
                    obs.label("StableGraph (vacancies)");
                    obs.nontrivial = true;
                }};
            }
            if a.directed {
                stable_ty!(Directed)
            } else {
                stable_ty!(Undirected)
            }
        }
        (4, _) | (5, _) => {
            let a = tagged(&a0, true);
            macro_rules! map_ty {
                ($ty:ty) => {{
                    let mut g = to_graphmap::<i32, $ty>(&a, |w| w);
                    // a removed and re-added node changes the compact numbering
                    if n > 0 && salt % 2 == 0 {
                        g.add_node(9999);
                        g.add_edge(9999, gm_key(0), -1);
                        g.remove_node(9999);
                    }
                    let ids: Vec<i32> = (0..n).map(gm_key).collect();
                    let v = View::full(&a, ids.clone());
                    let w = "GraphMap";
                    run_checks!(&g, &v, w; c_nodes, c_compact, c_node_refs, c_edge_refs, c_edge_indexable, c_neighbors, c_neighbors_directed, c_edges, c_edges_directed);
                    c_count(&g, &v, w)?;
                    c_edge_count(&g, &v, w)?;
                    c_adj(&g, &v, w)?;
                    c_visitable(&g, &v, w)?;
                    c_prop(&g, &v, w)?;
                    reversed_views!(&g, &a, ids, c, "GraphMap", &mut obs);
                    filtered_views!(&g, &a, ids, c, "GraphMap", obs, hashset);
                    edge_filtered_views!(&g, &a, ids, c, "GraphMap");
                    obs.label("GraphMap");
                }};
            }
            if a.directed {
                map_ty!(Directed)
            } else {
                map_ty!(Undirected)
            }
        }
        (6, true) | (7, true) => {
            let a = tagged(&a0, true);
            let (g, ids) = to_matrix_holes::<i32, Directed>(&a, salt, |w| w);
            let v = View::full(&a, ids.clone());
            let w = "MatrixGraph<Directed>";
            run_checks!(&g, &v, w; c_nodes, c_node_refs, c_edge_refs, c_neighbors, c_neighbors_directed, c_edges, c_edges_directed);
            c_count(&g, &v, w)?;
            c_edge_count(&g, &v, w)?;
            c_adj(&g, &v, w)?;
            c_visitable(&g, &v, w)?;
            c_prop(&g, &v, w)?;
            reversed_views!(&g, &a, ids, c, "MatrixGraph", &mut obs);
            filtered_views!(&g, &a, ids, c, "MatrixGraph", obs, hashset);
            edge_filtered_views!(&g, &a, ids, c, "MatrixGraph");
            obs.label("MatrixGraph directed (reused ids)");
            obs.nontrivial = true;
        }
        (6, false) | (7, false) => {
            let a = tagged(&a0, true);
            let (g, ids) = to_matrix_holes::<i32, Undirected>(&a, salt, |w| w);
            let v = View::full(&a, ids.clone());
            let w = "MatrixGraph<Undirected>";
            run_checks!(&g, &v, w; c_nodes, c_node_refs, c_edge_refs, c_neighbors, c_edges);
            c_count(&g, &v, w)?;
            c_edge_count(&g, &v, w)?;
            c_adj(&g, &v, w)?;
            c_visitable(&g, &v, w)?;
            c_prop(&g, &v, w)?;
            obs.label("MatrixGraph undirected (reused ids)");
            obs.nontrivial = true;
        }
        (8, _) | (9, _) => {
            let a = tagged(&a0, true);
            macro_rules! csr_ty {
                ($ty:ty) => {{
                    let mut g = to_csr::<i32, $ty>(&a, |w| w);
                    if salt % 2 == 0 && n > 0 {
                        // a state with history: junk edges, clear_edges, then the real edges again
                        g.add_edge(0, (n - 1) as u32, -1);
                        g.add_edge((n / 2) as u32, 0, -2);
                        g.clear_edges();
                        for &(x, y, t) in &a.edges {
                            g.add_edge(x as u32, y as u32, t);
                        }
                        obs.label("Csr after clear_edges");
                    }
                    let ids: Vec<u32> = (0..n as u32).collect();
                    let v = View::full(&a, ids.clone());
                    let w = "Csr";
                    run_checks!(&g, &v, w; c_nodes, c_compact, c_node_refs, c_edge_refs, c_neighbors, c_edges);
                    c_count(&g, &v, w)?;
                    c_edge_count(&g, &v, w)?;
                    c_adj(&&g, &v, w)?;
                    c_visitable(&g, &v, w)?;
                    c_prop(&g, &v, w)?;
                    obs.label("Csr");
                }};
            }
            if a.directed {
                csr_ty!(Directed)
            } else {
                csr_ty!(Undirected)
            }
        }
        (11, _) if n > 0 => {
            // StableGraph<u8> filled to its edge limit (255 edges, no vacant slot), then one more insertion,
            // which must be refused; the views describe the 255 edges
            let mut a = AGraph { directed: a0.directed, n, edges: Vec::new() };
            for i in 0..255usize {
                let (x, y) = if a0.edges.is_empty() { (i % n, (i / n) % n) } else { let e = a0.edges[i % a0.edges.len()]; (e.0, e.1) };
                a.edges.push((x, y, 1000 + i as i32));
            }
            macro_rules! full_ty {
                ($ty:ty) => {{
                    let mut g: petgraph::stable_graph::StableGraph<usize, i32, $ty, u8> = petgraph::stable_graph::StableGraph::default();
                    let ids: Vec<NodeIndex<u8>> = (0..n).map(|i| g.add_node(i)).collect();
                    for &(x, y, t) in &a.edges {
                        g.add_edge(ids[x], ids[y], t);
                    }
                    let extra = guarded(|| g.try_add_edge(ids[0], ids[n - 1], 5000).ok());
                    if let Ok(Some(_)) = extra {
                        // (accepted: then it is an edge like any other)
                        a.edges.push((0, n - 1, 5000));
                    }
                    let v = View::full(&a, ids.clone());
                    let w = "StableGraph<u8> at its edge limit";
                    run_checks!(&g, &v, w; c_nodes, c_node_refs, c_edge_refs, c_edge_indexable, c_neighbors, c_neighbors_directed, c_edges, c_edges_directed);
                    c_count(&g, &v, w)?;
                    c_edge_count(&g, &v, w)?;
                    c_adj(&g, &v, w)?;
                    obs.label("StableGraph<u8> at its edge limit");
                }};
            }
            if a0.directed {
                full_ty!(Directed)
            } else {
                full_ty!(Undirected)
            }
            obs.nontrivial = true;
        }
        (_, true) => {
            let a = tagged(&a0, false);
            let mut g: List<i32, u32> = List::new();
            for _ in 0..n {
                g.add_node();
            }
            for &(x, y, t) in &a.edges {
                g.add_edge(x as u32, y as u32, t);
            }
            // part of the history: insertions with an endpoint just past the last node are refused
            // (documented panic) and leave the structure as it was
            if n > 0 {
                let src = (c.salt as usize % n) as u32;
                let _ = guarded(|| g.add_edge(src, n as u32, -1));
                let _ = guarded(|| g.add_edge(n as u32, src, -2));
            }
            let ids: Vec<u32> = (0..n as u32).collect();
            let v = View::full(&a, ids.clone());
            let w = "adj::List";
            run_checks!(&g, &v, w; c_nodes, c_compact, c_node_refs, c_edge_refs, c_neighbors, c_edges);
            c_count(&g, &v, w)?;
            c_edge_count(&g, &v, w)?;
            c_adj(&g, &v, w)?;
            c_visitable(&g, &v, w)?;
            c_prop(&g, &v, w)?;
            obs.label("adj::List");
        }
        (_, false) => {
            // second undirected Graph width instead of List (which is directed only)
            let a = tagged(&a0, false);
            let (g, ids) = graph_renumbered::<Undirected, usize>(&a, salt);
            let v = View::full(&a, ids.clone());
            run_checks!(&g, &v, "Graph<usize>"; c_nodes, c_compact, c_node_refs, c_edge_refs, c_edge_indexable, c_neighbors, c_neighbors_directed, c_edges, c_edges_directed);
            c_adj(&g, &v, "Graph<usize>")?;
            reversed_views!(&g, &a, ids, c, "Graph<usize>", &mut obs);
            obs.label("Graph<usize> undirected");
        }
    }
    if a0.m() >= 1 && n >= 2 {
        obs.nontrivial |= obs.labels.contains(&"Reversed / depth-2");
    }
    Ok(obs)
}

/// bounded-exhaustive scope: every labelled digraph on 0..=3 nodes and undirected graph on 1..=4 nodes
/// (loops included) x the 12 base states x 4 filter-mask pairs
const ENUM_P: u64 = 12 * 4;
fn enum_count(_tier: Tier) -> u64 {
    (small_graph_count(3, 4) + 1) * ENUM_P
}
fn enum_make(_tier: Tier, i: u64) -> Case {
    let p = i % ENUM_P;
    let g = match small_graph(i / ENUM_P, 3, 4) {
        Some((dir, n, mask)) => raw_explicit(dir, n, mask, 0),
        // one more: the empty graph
        None => RawGraph { directed: true, shape: 0, n: 0, k: 0, keys: Vec::new(), edges: Vec::new() },
    };
    let (nmask, emask) = [(0xffffu16, u64::MAX), (0x5555, 0xaaaa_aaaa_aaaa_aaaa), (0x0003, 0x0f0f_0f0f_0f0f_0f0f), (0xfffe, 1)][(p / 12) as usize];
    Case { g, base: (p % 12) as u8, salt: (i % 251) as u8, nmask, emask }
}

pub fn property() -> Property {
    Property {
        id: "C06",
        rule: "random multigraphs with loops (0..=9 nodes quick) stored in states produced by mutation: Graph renumbered by removals (u8/u16/u32/usize), StableGraph with node and edge vacancies, GraphMap after a remove/re-add, MatrixGraph with reused ids, Csr, adj::List; every edge carries a unique tag.  For each state the base reference and the adaptor views Reversed, Reversed<Reversed>, UndirectedAdaptor (directed bases; also over Reversed), NodeFiltered (closure / HashSet / FixedBitSet predicate), EdgeFiltered, Reversed over both filters, EdgeFiltered over Reversed, Frozen and the &mut delegations are handed to trait-generic checkers together with the expected (reversed / symmetrised / induced / restricted) graph: node_identifiers/node_references once each, node_count, to_index < node_bound, from_index inverse, exactly 0..bound for compact types, edge_references once each, EdgeIndexable round trip, neighbors / neighbors_directed / edges / edges_directed per node as multisets of (source, target, tag) under the documented orientation, is_adjacent for all ordered pairs, visit maps, DataMap, is_directed; non-trivial = a state with vacancies / reused ids, or a depth-2 view, with at least one edge; distinct by case fingerprint; bounded-exhaustive sub-check: every labelled digraph on 0..=3 nodes and undirected graph on 1..=4 nodes (loops included) x the 12 base states x 4 filter-mask pairs",
        assumptions: &["UndirectedAdaptor: a self-loop may be listed once or twice (not specified)"],
        both_profiles: false,
        subs: vec![sub("views/all-types", 1_000_000, 20_000_000, strategy, run), sub_enum("views/all-small-graphs", enum_count, enum_make, run)],
    }
}
