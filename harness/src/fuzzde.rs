//! A lenient, total binary codec for case types, used by the libFuzzer targets.
//!
//! `decode` reads *any* byte string as a value of a `Deserialize` type: integers are little-endian
//! (zero once the input is used up), `bool`/`Option` look at the low bit of one byte, an enum takes
//! `byte % number_of_variants`, a sequence takes one length byte (and ends early when the input
//! does).  Every byte string therefore decodes to a case, small mutations of the bytes are small
//! mutations of the case, and libFuzzer's coverage feedback works on the structure of the operation
//! history itself.  `encode` is the inverse on values that fit (sequences up to 255 items), used to
//! seed the corpus with cases drawn from the proptest strategies.
//!
//! (The first fuzz entry point fed the bytes to proptest's pass-through RNG.  That is unusable for
//! these strategies: every `prop_oneof!` forks the RNG once per alternative and a fork hands half of
//! the remaining bytes to the child, so the stream is gone after a few operations and the zero
//! fill that follows spins rand's rejection sampling forever.)

use serde::de::{self, DeserializeSeed, EnumAccess, IntoDeserializer, MapAccess, SeqAccess, VariantAccess, Visitor};
use serde::ser::{self, Serialize};
use serde::Deserialize;
use std::fmt;

#[derive(Debug)]
pub struct Error(String);

impl fmt::Display for Error {
    fn fmt(&self, f: &mut fmt::Formatter<'_>) -> fmt::Result {
        f.write_str(&self.0)
    }
}
impl std::error::Error for Error {}
impl de::Error for Error {
    fn custom<T: fmt::Display>(msg: T) -> Self {
        Error(msg.to_string())
    }
}
impl ser::Error for Error {
    fn custom<T: fmt::Display>(msg: T) -> Self {
        Error(msg.to_string())
    }
}

pub fn decode<'a, T: Deserialize<'a>>(data: &'a [u8]) -> Result<T, Error> {
    let mut d = De { data, pos: 0 };
    T::deserialize(&mut d)
}

pub fn encode<T: Serialize>(v: &T) -> Result<Vec<u8>, Error> {
    let mut s = Ser { out: Vec::new() };
    v.serialize(&mut s)?;
    Ok(s.out)
}

// ------------------------------------------------------------------------------------------ decoding

pub struct De<'a> {
    data: &'a [u8],
    pos: usize,
}

impl<'a> De<'a> {
    fn byte(&mut self) -> u8 {
        let b = self.data.get(self.pos).copied().unwrap_or(0);
        self.pos += 1;
        b
    }
    fn exhausted(&self) -> bool {
        self.pos >= self.data.len()
    }
    fn le(&mut self, n: usize) -> u64 {
        let mut v = 0u64;
        for i in 0..n {
            v |= (self.byte() as u64) << (8 * i);
        }
        v
    }
}

macro_rules! de_int {
    ($name:ident, $visit:ident, $t:ty, $n:expr) => {
        fn $name<V: Visitor<'de>>(self, v: V) -> Result<V::Value, Error> {
            v.$visit(self.le($n) as $t)
        }
    };
}

impl<'de, 'a> de::Deserializer<'de> for &'a mut De<'de> {
    type Error = Error;

    fn deserialize_any<V: Visitor<'de>>(self, _v: V) -> Result<V::Value, Error> {
        Err(Error("self-describing values are not supported".into()))
    }
    fn deserialize_bool<V: Visitor<'de>>(self, v: V) -> Result<V::Value, Error> {
        v.visit_bool(self.byte() & 1 == 1)
    }
    de_int!(deserialize_i8, visit_i8, i8, 1);
    de_int!(deserialize_i16, visit_i16, i16, 2);
    de_int!(deserialize_i32, visit_i32, i32, 4);
    de_int!(deserialize_i64, visit_i64, i64, 8);
    de_int!(deserialize_u8, visit_u8, u8, 1);
    de_int!(deserialize_u16, visit_u16, u16, 2);
    de_int!(deserialize_u32, visit_u32, u32, 4);
    de_int!(deserialize_u64, visit_u64, u64, 8);
    fn deserialize_f32<V: Visitor<'de>>(self, v: V) -> Result<V::Value, Error> {
        v.visit_f32(self.le(2) as i16 as f32 * 0.25)
    }
    fn deserialize_f64<V: Visitor<'de>>(self, v: V) -> Result<V::Value, Error> {
        v.visit_f64(self.le(2) as i16 as f64 * 0.25)
    }
    fn deserialize_char<V: Visitor<'de>>(self, v: V) -> Result<V::Value, Error> {
        v.visit_char((self.byte() & 0x7f) as char)
    }
    fn deserialize_str<V: Visitor<'de>>(self, v: V) -> Result<V::Value, Error> {
        self.deserialize_string(v)
    }
    fn deserialize_string<V: Visitor<'de>>(self, v: V) -> Result<V::Value, Error> {
        let n = self.byte() as usize % 32;
        let mut s = String::new();
        for _ in 0..n {
            if self.exhausted() {
                break;
            }
            s.push((self.byte() & 0x7f) as char);
        }
        v.visit_string(s)
    }
    fn deserialize_bytes<V: Visitor<'de>>(self, v: V) -> Result<V::Value, Error> {
        self.deserialize_byte_buf(v)
    }
    fn deserialize_byte_buf<V: Visitor<'de>>(self, v: V) -> Result<V::Value, Error> {
        let n = self.byte() as usize;
        let mut b = Vec::new();
        for _ in 0..n {
            if self.exhausted() {
                break;
            }
            b.push(self.byte());
        }
        v.visit_byte_buf(b)
    }
    fn deserialize_option<V: Visitor<'de>>(self, v: V) -> Result<V::Value, Error> {
        if self.byte() & 1 == 1 {
            v.visit_some(self)
        } else {
            v.visit_none()
        }
    }
    fn deserialize_unit<V: Visitor<'de>>(self, v: V) -> Result<V::Value, Error> {
        v.visit_unit()
    }
    fn deserialize_unit_struct<V: Visitor<'de>>(self, _n: &'static str, v: V) -> Result<V::Value, Error> {
        v.visit_unit()
    }
    fn deserialize_newtype_struct<V: Visitor<'de>>(self, _n: &'static str, v: V) -> Result<V::Value, Error> {
        v.visit_newtype_struct(self)
    }
    fn deserialize_seq<V: Visitor<'de>>(self, v: V) -> Result<V::Value, Error> {
        let n = self.byte() as usize;
        v.visit_seq(Seq { de: self, left: n, stop_when_exhausted: true })
    }
    fn deserialize_tuple<V: Visitor<'de>>(self, len: usize, v: V) -> Result<V::Value, Error> {
        v.visit_seq(Seq { de: self, left: len, stop_when_exhausted: false })
    }
    fn deserialize_tuple_struct<V: Visitor<'de>>(self, _n: &'static str, len: usize, v: V) -> Result<V::Value, Error> {
        v.visit_seq(Seq { de: self, left: len, stop_when_exhausted: false })
    }
    fn deserialize_map<V: Visitor<'de>>(self, v: V) -> Result<V::Value, Error> {
        let n = self.byte() as usize % 16;
        v.visit_map(Seq { de: self, left: n, stop_when_exhausted: true })
    }
    fn deserialize_struct<V: Visitor<'de>>(self, _n: &'static str, fields: &'static [&'static str], v: V) -> Result<V::Value, Error> {
        v.visit_seq(Seq { de: self, left: fields.len(), stop_when_exhausted: false })
    }
    fn deserialize_enum<V: Visitor<'de>>(self, _n: &'static str, variants: &'static [&'static str], v: V) -> Result<V::Value, Error> {
        if variants.is_empty() {
            return Err(Error("enum without variants".into()));
        }
        let idx = self.byte() as usize % variants.len();
        v.visit_enum(Enum { de: self, idx: idx as u32 })
    }
    fn deserialize_identifier<V: Visitor<'de>>(self, _v: V) -> Result<V::Value, Error> {
        Err(Error("identifiers are not supported".into()))
    }
    fn deserialize_ignored_any<V: Visitor<'de>>(self, _v: V) -> Result<V::Value, Error> {
        Err(Error("ignored_any is not supported".into()))
    }
}

struct Seq<'a, 'de> {
    de: &'a mut De<'de>,
    left: usize,
    stop_when_exhausted: bool,
}

impl<'a, 'de> SeqAccess<'de> for Seq<'a, 'de> {
    type Error = Error;
    fn next_element_seed<T: DeserializeSeed<'de>>(&mut self, seed: T) -> Result<Option<T::Value>, Error> {
        if self.left == 0 || (self.stop_when_exhausted && self.de.exhausted()) {
            return Ok(None);
        }
        self.left -= 1;
        seed.deserialize(&mut *self.de).map(Some)
    }
}

impl<'a, 'de> MapAccess<'de> for Seq<'a, 'de> {
    type Error = Error;
    fn next_key_seed<K: DeserializeSeed<'de>>(&mut self, seed: K) -> Result<Option<K::Value>, Error> {
        if self.left == 0 || self.de.exhausted() {
            return Ok(None);
        }
        self.left -= 1;
        seed.deserialize(&mut *self.de).map(Some)
    }
    fn next_value_seed<V: DeserializeSeed<'de>>(&mut self, seed: V) -> Result<V::Value, Error> {
        seed.deserialize(&mut *self.de)
    }
}

struct Enum<'a, 'de> {
    de: &'a mut De<'de>,
    idx: u32,
}

impl<'a, 'de> EnumAccess<'de> for Enum<'a, 'de> {
    type Error = Error;
    type Variant = Self;
    fn variant_seed<V: DeserializeSeed<'de>>(self, seed: V) -> Result<(V::Value, Self), Error> {
        let v = seed.deserialize(IntoDeserializer::<Error>::into_deserializer(self.idx))?;
        Ok((v, self))
    }
}

impl<'a, 'de> VariantAccess<'de> for Enum<'a, 'de> {
    type Error = Error;
    fn unit_variant(self) -> Result<(), Error> {
        Ok(())
    }
    fn newtype_variant_seed<T: DeserializeSeed<'de>>(self, seed: T) -> Result<T::Value, Error> {
        seed.deserialize(self.de)
    }
    fn tuple_variant<V: Visitor<'de>>(self, len: usize, v: V) -> Result<V::Value, Error> {
        v.visit_seq(Seq { de: self.de, left: len, stop_when_exhausted: false })
    }
    fn struct_variant<V: Visitor<'de>>(self, fields: &'static [&'static str], v: V) -> Result<V::Value, Error> {
        v.visit_seq(Seq { de: self.de, left: fields.len(), stop_when_exhausted: false })
    }
}

// ------------------------------------------------------------------------------------------ encoding

pub struct Ser {
    out: Vec<u8>,
}

macro_rules! ser_int {
    ($name:ident, $t:ty, $n:expr) => {
        fn $name(self, v: $t) -> Result<(), Error> {
            self.out.extend_from_slice(&(v as u64).to_le_bytes()[..$n]);
            Ok(())
        }
    };
}

impl<'a> ser::Serializer for &'a mut Ser {
    type Ok = ();
    type Error = Error;
    type SerializeSeq = Self;
    type SerializeTuple = Self;
    type SerializeTupleStruct = Self;
    type SerializeTupleVariant = Self;
    type SerializeMap = Self;
    type SerializeStruct = Self;
    type SerializeStructVariant = Self;

    fn serialize_bool(self, v: bool) -> Result<(), Error> {
        self.out.push(v as u8);
        Ok(())
    }
    ser_int!(serialize_i8, i8, 1);
    ser_int!(serialize_i16, i16, 2);
    ser_int!(serialize_i32, i32, 4);
    ser_int!(serialize_i64, i64, 8);
    ser_int!(serialize_u8, u8, 1);
    ser_int!(serialize_u16, u16, 2);
    ser_int!(serialize_u32, u32, 4);
    ser_int!(serialize_u64, u64, 8);
    fn serialize_f32(self, v: f32) -> Result<(), Error> {
        self.serialize_i16((v * 4.0) as i16)
    }
    fn serialize_f64(self, v: f64) -> Result<(), Error> {
        self.serialize_i16((v * 4.0) as i16)
    }
    fn serialize_char(self, v: char) -> Result<(), Error> {
        self.out.push(v as u32 as u8 & 0x7f);
        Ok(())
    }
    fn serialize_str(self, v: &str) -> Result<(), Error> {
        let b: Vec<u8> = v.bytes().take(31).map(|b| b & 0x7f).collect();
        self.out.push(b.len() as u8);
        self.out.extend(b);
        Ok(())
    }
    fn serialize_bytes(self, v: &[u8]) -> Result<(), Error> {
        let n = v.len().min(255);
        self.out.push(n as u8);
        self.out.extend_from_slice(&v[..n]);
        Ok(())
    }
    fn serialize_none(self) -> Result<(), Error> {
        self.out.push(0);
        Ok(())
    }
    fn serialize_some<T: ?Sized + Serialize>(self, v: &T) -> Result<(), Error> {
        self.out.push(1);
        v.serialize(self)
    }
    fn serialize_unit(self) -> Result<(), Error> {
        Ok(())
    }
    fn serialize_unit_struct(self, _n: &'static str) -> Result<(), Error> {
        Ok(())
    }
    fn serialize_unit_variant(self, _n: &'static str, idx: u32, _v: &'static str) -> Result<(), Error> {
        self.out.push(idx as u8);
        Ok(())
    }
    fn serialize_newtype_struct<T: ?Sized + Serialize>(self, _n: &'static str, v: &T) -> Result<(), Error> {
        v.serialize(self)
    }
    fn serialize_newtype_variant<T: ?Sized + Serialize>(self, _n: &'static str, idx: u32, _v: &'static str, v: &T) -> Result<(), Error> {
        self.out.push(idx as u8);
        v.serialize(self)
    }
    fn serialize_seq(self, len: Option<usize>) -> Result<Self, Error> {
        match len {
            Some(n) if n <= 255 => {
                self.out.push(n as u8);
                Ok(self)
            }
            _ => Err(Error("sequence longer than 255 items (or of unknown length)".into())),
        }
    }
    fn serialize_tuple(self, _len: usize) -> Result<Self, Error> {
        Ok(self)
    }
    fn serialize_tuple_struct(self, _n: &'static str, _len: usize) -> Result<Self, Error> {
        Ok(self)
    }
    fn serialize_tuple_variant(self, _n: &'static str, idx: u32, _v: &'static str, _len: usize) -> Result<Self, Error> {
        self.out.push(idx as u8);
        Ok(self)
    }
    fn serialize_map(self, len: Option<usize>) -> Result<Self, Error> {
        match len {
            Some(n) if n < 16 => {
                self.out.push(n as u8);
                Ok(self)
            }
            _ => Err(Error("map with 16 or more entries".into())),
        }
    }
    fn serialize_struct(self, _n: &'static str, _len: usize) -> Result<Self, Error> {
        Ok(self)
    }
    fn serialize_struct_variant(self, _n: &'static str, idx: u32, _v: &'static str, _len: usize) -> Result<Self, Error> {
        self.out.push(idx as u8);
        Ok(self)
    }
}

macro_rules! ser_compound {
    ($tr:ident, $f:ident $(, $key:ident)?) => {
        impl<'a> ser::$tr for &'a mut Ser {
            type Ok = ();
            type Error = Error;
            fn $f<T: ?Sized + Serialize>(&mut self, $($key: &'static str,)? v: &T) -> Result<(), Error> {
                $(let _ = $key;)?
                v.serialize(&mut **self)
            }
            fn end(self) -> Result<(), Error> {
                Ok(())
            }
        }
    };
}
ser_compound!(SerializeSeq, serialize_element);
ser_compound!(SerializeTuple, serialize_element);
ser_compound!(SerializeTupleStruct, serialize_field);
ser_compound!(SerializeTupleVariant, serialize_field);
ser_compound!(SerializeStruct, serialize_field, key);
ser_compound!(SerializeStructVariant, serialize_field, key);

impl<'a> ser::SerializeMap for &'a mut Ser {
    type Ok = ();
    type Error = Error;
    fn serialize_key<T: ?Sized + Serialize>(&mut self, k: &T) -> Result<(), Error> {
        k.serialize(&mut **self)
    }
    fn serialize_value<T: ?Sized + Serialize>(&mut self, v: &T) -> Result<(), Error> {
        v.serialize(&mut **self)
    }
    fn end(self) -> Result<(), Error> {
        Ok(())
    }
}

#[cfg(test)]
mod tests {
    use super::*;
    #[derive(Debug, PartialEq, serde::Serialize, serde::Deserialize)]
    enum Op {
        A,
        B(u16, bool),
        C { x: u8, y: Vec<(u16, u16)> },
    }
    #[derive(Debug, PartialEq, serde::Serialize, serde::Deserialize)]
    struct Case {
        d: bool,
        w: u8,
        ops: Vec<Op>,
        o: Option<u32>,
    }
    #[test]
    fn roundtrip_and_total() {
        let c = Case { d: true, w: 3, ops: vec![Op::A, Op::B(515, true), Op::C { x: 9, y: vec![(1, 2), (3, 4)] }], o: Some(77) };
        let b = encode(&c).unwrap();
        assert_eq!(decode::<Case>(&b).unwrap(), c);
        for len in 0..b.len() {
            let _ = decode::<Case>(&b[..len]).unwrap();
        }
        let _ = decode::<Case>(&[0xff; 64]).unwrap();
    }
}
