//! C03 — GraphMap is a simple graph keyed by node value under every history.

use crate::engine::*;
use crate::util::{pick, sorted};
use petgraph::graph::Graph;
use petgraph::graphmap::{GraphMap, NodeTrait};
use petgraph::visit::{EdgeIndexable, EdgeRef, IntoEdgeReferences, IntoNodeIdentifiers, NodeIndexable};
use petgraph::Direction::{Incoming, Outgoing};
use petgraph::{Directed, EdgeType, Undirected};
use proptest::prelude::*;
use serde::{Deserialize, Serialize};
use std::collections::{BTreeMap, BTreeSet};
use std::hash::{BuildHasher, Hasher};

#[derive(Debug, Clone, Serialize, Deserialize)]
pub enum Op {
    AddNode(u16),
    AddEdge(u16, u16),
    RemoveNode(u16),
    RemoveEdge(u16, u16),
    /// remove an existing edge / node chosen among the live ones
    RemoveLiveEdge(u16),
    RemoveLiveNode(u16),
    Clear,
    Extend(Vec<(u16, u16)>),
    FromEdges,
    SetWeight(u16, u16, u8),
    GraphRoundTrip,
    CloneReplace,
    /// rebuild through a Graph that additionally has duplicate node weights and parallel edges
    /// (from_graph documents: equal weights are merged, the last parallel edge is kept)
    FromGraphWithDuplicates(u16),
    /// through the `data::Build` trait: 0 add_node, 1 add_edge (refused when present), 2 update_edge
    BuildCall(u8, u16, u16),
}

#[derive(Debug, Clone, Serialize, Deserialize)]
pub struct Case {
    pub directed: bool,
    /// 0 RandomState, 1 Fx, 2 aHash, 3 constant (everything collides)
    pub hasher: u8,
    /// 0: i32 keys, 1: (i8, bool) keys
    pub key: u8,
    pub ops: Vec<Op>,
}

fn op_strategy() -> impl Strategy<Value = Op> {
    let s = any::<u16>;
    prop_oneof![
        4 => s().prop_map(Op::AddNode),
        24 => (s(), s()).prop_map(|(a, b)| Op::AddEdge(a, b)),
        3 => s().prop_map(Op::RemoveNode),
        3 => (s(), s()).prop_map(|(a, b)| Op::RemoveEdge(a, b)),
        7 => s().prop_map(Op::RemoveLiveEdge),
        5 => s().prop_map(Op::RemoveLiveNode),
        1 => Just(Op::Clear),
        2 => proptest::collection::vec((s(), s()), 0..5).prop_map(Op::Extend),
        1 => Just(Op::FromEdges),
        4 => (s(), s(), 0u8..3).prop_map(|(a, b, k)| Op::SetWeight(a, b, k)),
        2 => Just(Op::GraphRoundTrip),
        1 => Just(Op::CloneReplace),
        2 => s().prop_map(Op::FromGraphWithDuplicates),
        4 => (0u8..3, s(), s()).prop_map(|(k, a, b)| Op::BuildCall(k, a, b)),
    ]
}

pub fn strategy(tier: Tier) -> BoxedStrategy<Case> {
    let maxops = if tier == Tier::Quick { 40 } else { 150 };
    (any::<bool>(), 0u8..4, 0u8..2, proptest::collection::vec(op_strategy(), 0..=maxops))
        .prop_map(|(directed, hasher, key, ops)| Case { directed, hasher, key, ops })
        .boxed()
}

const POOL: usize = 8;

pub trait Key: NodeTrait + std::fmt::Debug {
    fn of(i: usize) -> Self;
}
impl Key for i32 {
    fn of(i: usize) -> Self {
        [7, -3, 0, 1000, -1000, 42, 5, i32::MIN][i % POOL]
    }
}
impl Key for (i8, bool) {
    fn of(i: usize) -> Self {
        ([0i8, 0, 1, 1, -128, 127, 3, 3][i % POOL], i % 2 == 1)
    }
}

#[derive(Clone, Default)]
pub struct Collide;
pub struct CollideHasher;
impl Hasher for CollideHasher {
    fn finish(&self) -> u64 {
        0
    }
    fn write(&mut self, _: &[u8]) {}
}
impl BuildHasher for Collide {
    type Hasher = CollideHasher;
    fn build_hasher(&self) -> CollideHasher {
        CollideHasher
    }
}

#[derive(Clone, Debug, PartialEq)]
struct Model<N: Ord> {
    directed: bool,
    nodes: BTreeSet<N>,
    edges: BTreeMap<(N, N), i32>,
}

impl<N: Key> Model<N> {
    fn key(&self, a: N, b: N) -> (N, N) {
        if self.directed || a <= b {
            (a, b)
        } else {
            (b, a)
        }
    }
    /// incident list as (source-as-reported, target-as-reported, weight)
    fn incident(&self, a: N, out: bool) -> Vec<(N, N, i32)> {
        let mut v = Vec::new();
        for (&(x, y), &w) in &self.edges {
            if self.directed {
                if out && x == a {
                    v.push((a, y, w));
                }
                if !out && y == a {
                    v.push((x, a, w));
                }
            } else if x == a || y == a {
                let other = if x == a { y } else { x };
                v.push(if out { (a, other, w) } else { (other, a, w) });
            }
        }
        v
    }
}

macro_rules! ck {
    ($cond:expr, $sig:expr, $($arg:tt)*) => {
        if !($cond) {
            return Err(Failure { sig: format!("C03/{}", $sig), msg: format!($($arg)*) });
        }
    };
}

fn observe<N: Key, Ty: EdgeType, S: BuildHasher>(g: &GraphMap<N, i32, Ty, S>, m: &Model<N>, at: &str) -> Result<(), Failure> {
    ck!(g.node_count() == m.nodes.len(), "node_count", "{at}: node_count() = {}, expected {}", g.node_count(), m.nodes.len());
    ck!(g.edge_count() == m.edges.len(), "edge_count", "{at}: edge_count() = {}, expected {}", g.edge_count(), m.edges.len());
    ck!(g.is_directed() == m.directed, "is_directed", "{at}: is_directed()");
    let nodes: Vec<N> = g.nodes().collect();
    ck!(sorted(&nodes) == m.nodes.iter().copied().collect::<Vec<_>>(), "nodes", "{at}: nodes() = {nodes:?}, expected {:?}", m.nodes);
    let all: Vec<(N, N, i32)> = g.all_edges().map(|(a, b, w)| (a, b, *w)).collect();
    let all_canon: Vec<((N, N), i32)> = all.iter().map(|&(a, b, w)| (m.key(a, b), w)).collect();
    ck!(sorted(&all_canon) == m.edges.iter().map(|(k, w)| (*k, *w)).collect::<Vec<_>>(), "all_edges", "{at}: all_edges() = {all:?}, expected {:?}", m.edges);
    for i in 0..POOL {
        let a = N::of(i);
        ck!(g.contains_node(a) == m.nodes.contains(&a), "contains_node", "{at}: contains_node({a:?})");
        for (dir, out) in [(Outgoing, true), (Incoming, false)] {
            let inc = m.incident(a, out);
            let exp_n: Vec<N> = inc.iter().map(|t| if out { t.1 } else { t.0 }).collect();
            let got_n: Vec<N> = g.neighbors_directed(a, dir).collect();
            ck!(sorted(&got_n) == sorted(&exp_n), "neighbors_directed", "{at}: neighbors_directed({a:?}, {dir:?}) = {got_n:?}, expected {exp_n:?}");
            let got_e: Vec<(N, N, i32)> = g.edges_directed(a, dir).map(|(x, y, w)| (x, y, *w)).collect();
            ck!(sorted(&got_e) == sorted(&inc), "edges_directed", "{at}: edges_directed({a:?}, {dir:?}) = {got_e:?}, expected {inc:?}");
            if out {
                let n2: Vec<N> = g.neighbors(a).collect();
                ck!(sorted(&n2) == sorted(&exp_n), "neighbors", "{at}: neighbors({a:?}) = {n2:?}, expected {exp_n:?}");
                let e2: Vec<(N, N, i32)> = g.edges(a).map(|(x, y, w)| (x, y, *w)).collect();
                ck!(sorted(&e2) == sorted(&inc), "edges", "{at}: edges({a:?}) = {e2:?}, expected {inc:?}");
            }
        }
        for j in 0..POOL {
            let b = N::of(j);
            let exp = m.edges.get(&m.key(a, b)).copied();
            ck!(g.contains_edge(a, b) == exp.is_some(), "contains_edge", "{at}: contains_edge({a:?},{b:?})");
            ck!(g.edge_weight(a, b).copied() == exp, "edge_weight", "{at}: edge_weight({a:?},{b:?}) = {:?}, expected {exp:?}", g.edge_weight(a, b));
            if exp.is_some() {
                ck!(g[(a, b)] == exp.unwrap(), "index", "{at}: g[({a:?},{b:?})]");
            }
        }
    }
    // iterator protocol of every GraphMap iterator (size_hint, count, last, nth, both ends, len);
    // on a state-determined quarter of the observations (it costs several times the rest)
    if (m.nodes.len() + 3 * m.edges.len() + at.len()) % 4 == 0 {
        use crate::util::{iter_laws, iter_laws_double_ended, iter_laws_exact};
        let cap = 4 * (m.nodes.len() + m.edges.len()) + 8;
        macro_rules! laws {
            ($name:expr, $r:expr) => {
                match $r {
                    Ok(v) => v,
                    Err(e) => return Err(Failure { sig: format!("C03/iterator-protocol/{}", $name), msg: format!("{at}: {}: {e}", $name) }),
                }
            };
        }
        let r = laws!("nodes", iter_laws(|| g.nodes(), cap));
        laws!("nodes", iter_laws_double_ended(|| g.nodes(), &r));
        laws!("nodes", iter_laws_exact(|| g.nodes(), r.len()));
        let r = laws!("all_edges", iter_laws(|| g.all_edges().map(|(a, b, w)| (a, b, *w)), cap));
        ck!(r == all, "iterator-protocol/all_edges", "{at}: all_edges() differs between two iterations");
        laws!("all_edges", iter_laws(|| g.all_edges(), cap));
        laws!("all_edges", iter_laws_double_ended(|| g.all_edges(), &g.all_edges().collect::<Vec<_>>()));
        laws!("node_identifiers", iter_laws(|| g.node_identifiers(), cap));
        laws!("node_references", iter_laws(|| petgraph::visit::IntoNodeReferences::node_references(g), cap));
        laws!("edge_references", iter_laws(|| g.edge_references().map(|e| (e.source(), e.target(), *e.weight())), cap));
        for i in 0..POOL {
            let a = N::of(i);
            if !m.nodes.contains(&a) {
                continue;
            }
            laws!("neighbors", iter_laws(|| g.neighbors(a), cap));
            laws!("edges", iter_laws(|| g.edges(a), cap));
            for dir in [Outgoing, Incoming] {
                laws!("neighbors_directed", iter_laws(|| g.neighbors_directed(a, dir), cap));
                laws!("edges_directed", iter_laws(|| g.edges_directed(a, dir), cap));
            }
        }
    }
    // compact numbering
    let ids: Vec<N> = g.node_identifiers().collect();
    ck!(g.node_bound() == ids.len(), "node_bound", "{at}: node_bound() = {} with {} nodes", g.node_bound(), ids.len());
    for (pos, &id) in ids.iter().enumerate() {
        ck!(NodeIndexable::to_index(g, id) == pos, "node-to_index", "{at}: to_index({id:?}) = {}, position in node_identifiers = {pos}", NodeIndexable::to_index(g, id));
        ck!(NodeIndexable::from_index(g, pos) == id, "node-from_index", "{at}: from_index({pos})");
    }
    let mut seen = BTreeSet::new();
    for e in g.edge_references() {
        let ix = EdgeIndexable::to_index(g, e.id());
        ck!(ix < g.edge_bound(), "edge-to_index", "{at}: to_index({:?}) = {ix} >= edge_bound {}", e.id(), g.edge_bound());
        ck!(seen.insert(ix), "edge-to_index", "{at}: edge index {ix} used twice");
        ck!(EdgeIndexable::from_index(g, ix) == e.id(), "edge-from_index", "{at}: from_index({ix}) != {:?}", e.id());
    }
    Ok(())
}

fn run_with<N: Key, Ty: EdgeType + Clone, S: BuildHasher + Default + Clone>(c: &Case) -> Outcome {
    let mut g: GraphMap<N, i32, Ty, S> = GraphMap::default();
    let mut m: Model<N> = Model { directed: Ty::is_directed(), nodes: BTreeSet::new(), edges: BTreeMap::new() };
    let mut counter = 0i32;
    let mut obs = Obs::default();
    let mut swap_removal = false;
    observe(&g, &m, "initially")?;
    for (step, op) in c.ops.iter().enumerate() {
        let at = format!("after step {step} {op:?}");
        let k = |s: u16| N::of(pick(s, POOL));
        match op {
            Op::AddNode(a) => {
                let a = k(*a);
                let r = g.add_node(a);
                ck!(r == a, "add_node-result", "{at}: add_node returned {r:?}");
                m.nodes.insert(a);
            }
            Op::AddEdge(a, b) => {
                let (a, b) = (k(*a), k(*b));
                counter += 1;
                let old = g.add_edge(a, b, counter);
                let exp = m.edges.insert(m.key(a, b), counter);
                ck!(old == exp, "add_edge-result", "{at}: add_edge({a:?},{b:?}) returned {old:?}, expected {exp:?}");
                m.nodes.insert(a);
                m.nodes.insert(b);
                if swap_removal {
                    obs.nontrivial = true;
                }
            }
            Op::BuildCall(kind, a, b) => {
                use petgraph::data::Build;
                let (a, b) = (k(*a), k(*b));
                counter += 1;
                match kind {
                    0 => {
                        let r = Build::add_node(&mut g, a);
                        ck!(r == a, "build-add_node", "{at}: Build::add_node({a:?}) returned {r:?}");
                        m.nodes.insert(a);
                    }
                    1 => {
                        let present = m.edges.contains_key(&m.key(a, b));
                        let r = Build::add_edge(&mut g, a, b, counter);
                        if present {
                            ck!(r.is_none(), "build-add_edge-duplicate", "{at}: Build::add_edge({a:?},{b:?}) on an existing edge returned {r:?} (must refuse and change nothing)");
                        } else {
                            ck!(r == Some((a, b)), "build-add_edge", "{at}: Build::add_edge({a:?},{b:?}) returned {r:?}");
                            m.edges.insert(m.key(a, b), counter);
                            m.nodes.insert(a);
                            m.nodes.insert(b);
                        }
                    }
                    _ => {
                        let r = Build::update_edge(&mut g, a, b, counter);
                        ck!(r == (a, b), "build-update_edge", "{at}: Build::update_edge({a:?},{b:?}) returned {r:?}");
                        m.edges.insert(m.key(a, b), counter);
                        m.nodes.insert(a);
                        m.nodes.insert(b);
                    }
                }
            }
            Op::RemoveNode(_) | Op::RemoveLiveNode(_) => {
                let a = match op {
                    Op::RemoveNode(a) => k(*a),
                    Op::RemoveLiveNode(s) if !m.nodes.is_empty() => *m.nodes.iter().nth(pick(*s, m.nodes.len())).unwrap(),
                    _ => continue,
                };
                // interesting: node with a loop or reciprocal pair and >= 2 other incident edges
                let inc = m.incident(a, true).len() + if m.directed { m.incident(a, false).len() } else { 0 };
                let has_loop = m.edges.contains_key(&(a, a));
                if inc >= 3 && (has_loop || m.directed) {
                    swap_removal = true;
                }
                let r = g.remove_node(a);
                let exp = m.nodes.remove(&a);
                ck!(r == exp, "remove_node-result", "{at}: remove_node({a:?}) returned {r}, expected {exp}");
                m.edges.retain(|&(x, y), _| x != a && y != a);
            }
            Op::RemoveEdge(..) | Op::RemoveLiveEdge(_) => {
                let (a, b) = match op {
                    Op::RemoveEdge(a, b) => (k(*a), k(*b)),
                    Op::RemoveLiveEdge(s) if !m.edges.is_empty() => {
                        let (&(x, y), _) = m.edges.iter().nth(pick(*s, m.edges.len())).unwrap();
                        // sometimes name an undirected edge by its other orientation
                        if !m.directed && s % 2 == 1 {
                            (y, x)
                        } else {
                            (x, y)
                        }
                    }
                    _ => continue,
                };
                if m.incident(a, true).len() >= 3 {
                    swap_removal = true;
                }
                let r = g.remove_edge(a, b);
                let exp = m.edges.remove(&m.key(a, b));
                ck!(r == exp, "remove_edge-result", "{at}: remove_edge({a:?},{b:?}) returned {r:?}, expected {exp:?}");
            }
            Op::Clear => {
                g.clear();
                m.nodes.clear();
                m.edges.clear();
            }
            Op::Extend(list) => {
                let mut items = Vec::new();
                for (a, b) in list {
                    let (a, b) = (k(*a), k(*b));
                    counter += 1;
                    items.push((a, b, counter));
                    m.edges.insert(m.key(a, b), counter);
                    m.nodes.insert(a);
                    m.nodes.insert(b);
                }
                g.extend(items);
                obs.label("extend");
            }
            Op::FromEdges => {
                // rebuild from the edge list: isolated nodes are (by construction) not carried over
                let list: Vec<(N, N, i32)> = g.all_edges().map(|(a, b, w)| (a, b, *w)).collect();
                // three entry points for the same thing: from_edges, FromIterator, Create + Extend
                g = match step % 3 {
                    0 => GraphMap::from_edges(list),
                    1 => list.into_iter().collect(),
                    _ => {
                        let mut h: GraphMap<N, i32, Ty, S> = petgraph::data::Create::with_capacity(1, list.len());
                        h.extend(list);
                        h
                    }
                };
                m.nodes = m.edges.keys().flat_map(|&(a, b)| [a, b]).collect();
                obs.label("from_edges");
            }
            Op::SetWeight(a, b, kind) => {
                let (a, b) = (k(*a), k(*b));
                let key = m.key(a, b);
                match kind {
                    0 => {
                        let r = g.edge_weight_mut(a, b);
                        ck!(r.is_some() == m.edges.contains_key(&key), "edge_weight_mut", "{at}: edge_weight_mut({a:?},{b:?}).is_some()");
                        if let Some(w) = r {
                            *w += 1000;
                            *m.edges.get_mut(&key).unwrap() += 1000;
                        }
                    }
                    1 => {
                        if m.edges.contains_key(&key) {
                            g[(a, b)] += 2000;
                            *m.edges.get_mut(&key).unwrap() += 2000;
                        } else {
                            let r = guarded(|| g[(a, b)]);
                            ck!(r.is_err(), "index-no-panic", "{at}: indexing a missing edge did not panic");
                        }
                    }
                    _ => {
                        for (_, _, w) in g.all_edges_mut() {
                            *w += 3;
                        }
                        for w in m.edges.values_mut() {
                            *w += 3;
                        }
                    }
                }
            }
            Op::GraphRoundTrip => {
                let gr: Graph<N, i32, Ty, u32> = g.clone().into_graph();
                // the Graph has the same labelled edge set
                ck!(gr.node_count() == m.nodes.len() && gr.edge_count() == m.edges.len(), "into_graph-counts", "{at}: into_graph counts ({}, {})", gr.node_count(), gr.edge_count());
                let labels: Vec<N> = gr.node_weights().copied().collect();
                ck!(sorted(&labels) == m.nodes.iter().copied().collect::<Vec<_>>(), "into_graph-nodes", "{at}: into_graph node weights {labels:?}");
                let es: Vec<((N, N), i32)> = gr.edge_references().map(|e| (m.key(gr[e.source()], gr[e.target()]), *e.weight())).collect();
                ck!(sorted(&es) == m.edges.iter().map(|(k, w)| (*k, *w)).collect::<Vec<_>>(), "into_graph-edges", "{at}: into_graph edges {es:?}");
                g = GraphMap::from_graph(gr);
                obs.label("into_graph/from_graph");
            }
            Op::CloneReplace => {
                g = g.clone();
            }
            Op::FromGraphWithDuplicates(sel) => {
                let mut gr: Graph<N, i32, Ty, u32> = Graph::with_capacity(0, 0);
                let mut ix = std::collections::BTreeMap::new();
                let mut dup_ix = std::collections::BTreeMap::new();
                for (k, &x) in m.nodes.iter().enumerate() {
                    ix.insert(x, gr.add_node(x));
                    if (sel >> (k % 16)) & 1 == 1 {
                        // a second node with the same weight: merged by from_graph
                        dup_ix.insert(x, gr.add_node(x));
                    }
                }
                for (k, (&(a, b), &w)) in m.edges.iter().enumerate() {
                    let pick_ix = |x: N, alt: bool| if alt { *dup_ix.get(&x).unwrap_or(&ix[&x]) } else { ix[&x] };
                    if (sel >> ((k + 3) % 16)) & 1 == 1 {
                        // an earlier parallel edge with another weight (undirected: in the other orientation)
                        if m.directed {
                            gr.add_edge(pick_ix(a, true), pick_ix(b, false), -w - 1);
                        } else {
                            gr.add_edge(pick_ix(b, false), pick_ix(a, true), -w - 1);
                        }
                    }
                    gr.add_edge(pick_ix(a, k % 2 == 0), pick_ix(b, k % 3 == 0), w);
                }
                g = GraphMap::from_graph(gr);
                obs.label("from_graph with duplicate node weights / parallel edges");
            }
        }
        observe(&g, &m, &at)?;
    }
    obs.label_if(m.edges.keys().any(|&(a, b)| a == b), "has self-loop");
    Ok(obs)
}

fn run_key<N: Key, Ty: EdgeType + Clone>(c: &Case) -> Outcome {
    match c.hasher % 4 {
        0 => run_with::<N, Ty, std::collections::hash_map::RandomState>(c),
        1 => run_with::<N, Ty, fxhash::FxBuildHasher>(c),
        2 => run_with::<N, Ty, ahash::RandomState>(c),
        _ => run_with::<N, Ty, Collide>(c),
    }
}

pub fn run(c: &Case) -> Outcome {
    match (c.directed, c.key % 2) {
        (true, 0) => run_key::<i32, Directed>(c),
        (true, _) => run_key::<(i8, bool), Directed>(c),
        (false, 0) => run_key::<i32, Undirected>(c),
        (false, _) => run_key::<(i8, bool), Undirected>(c),
    }
}

/// libFuzzer entry: bring a decoded case into the domain of `strategy`
pub fn fuzz_domain(c: &mut Case) -> bool {
    c.hasher %= 4;
    c.key %= 2;
    c.ops.truncate(150);
    for o in c.ops.iter_mut() {
        match o {
            Op::Extend(v) => v.truncate(4),
            Op::SetWeight(_, _, k) => *k %= 3,
            Op::BuildCall(k, ..) => *k %= 3,
            _ => {}
        }
    }
    true
}

/// cases decoded from byte strings (see `engine::decoded_strategy`)
pub fn bytes_strategy(_tier: Tier) -> BoxedStrategy<Case> {
    decoded_strategy(fuzz_domain)
}

const SEL: [u16; 3] = [0, 21846, 43691];
/// history length of the bounded-exhaustive sub-check
fn seq_len(tier: Tier) -> usize {
    if tier == Tier::Quick {
        4
    } else {
        5
    }
}
/// alphabet of the bounded-exhaustive sub-check: three keys, every node / edge insertion and removal
fn alphabet() -> Vec<Op> {
    let mut a = Vec::new();
    for x in SEL {
        a.push(Op::AddNode(x));
        a.push(Op::RemoveNode(x));
        for y in SEL {
            a.push(Op::AddEdge(x, y));
            a.push(Op::RemoveEdge(x, y));
        }
    }
    a
}
fn enum_count(tier: Tier) -> u64 {
    2 * (alphabet().len() as u64).pow(seq_len(tier) as u32)
}
fn enum_make(tier: Tier, i: u64) -> Case {
    let a = alphabet();
    let ops = crate::util::digits(i / 2, a.len() as u64, seq_len(tier)).into_iter().map(|d| a[d].clone()).collect();
    Case { directed: i % 2 == 0, hasher: ((i / 2) % 4) as u8, key: ((i / 8) % 2) as u8, ops }
}

pub fn property() -> Property {
    Property {
        id: "C03",
        rule: "operation histories (<=40 ops quick / <=150 thorough) over GraphMap with keys from a pool of 8 values (i32 incl. MIN, and (i8,bool)), Directed/Undirected, hashers RandomState / Fx / aHash / an all-colliding constant hasher: add_node, add_edge (new, existing, self-loop, reciprocal), remove_edge and remove_node (arbitrary and live targets, undirected edges named by either orientation), clear, extend, from_edges, weight writes (edge_weight_mut, IndexMut, all_edges_mut), into_graph/from_graph, clone; after every step every query for every pool key and pair, the whole-graph iterators and the to_index/from_index numberings are compared with a BTreeSet/BTreeMap model; non-trivial = a removal at a node with >= 3 incident edges (adjacency swap_remove) followed by a later add_edge; distinct by fingerprint of the op sequence; the *-from-bytes sub-checks feed the same interpreter with histories decoded from generated byte strings by the libFuzzer codec (all operation kinds equally likely, up to the thorough-tier length); bounded-exhaustive sub-check: every history of 4 (thorough: 5) operations over a 24-operation alphabet (add / remove node, add / remove edge for every ordered pair of three keys), directed and undirected",
        assumptions: &["EdgeIndexable is exercised only with ids yielded by edge_references (canonical orientation)"],
        both_profiles: false,
        subs: vec![sub_fuzz("graphmap/history", 500_000, 5_000_000, strategy, run, fuzz_domain), sub_enum("graphmap/all-short-histories", enum_count, enum_make, run), sub("graphmap/history-from-bytes", 300_000, 5_000_000, bytes_strategy, run)],
    }
}
