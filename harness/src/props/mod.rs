use crate::engine::Property;

pub mod c19;

pub fn all() -> Vec<Property> {
    vec![c19::property()]
}
