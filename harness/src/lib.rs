//! pgcheck: property-based checks for the 20 petgraph properties (see /verif/DESIGN.md).
#[macro_use]
pub mod engine;
pub mod agraph;
pub mod fuzzde;
pub mod gmodel;
pub mod props;
pub mod util;
