//! C12 — min_spanning_tree (Kruskal) and min_spanning_tree_prim.

use crate::agraph::*;
use crate::engine::*;
use petgraph::algo::{min_spanning_tree, min_spanning_tree_prim};
use petgraph::data::{Element, FromElements};
use petgraph::graph::{Graph, NodeIndex, UnGraph};
use petgraph::visit::{EdgeRef, IntoEdgeReferences, IntoEdges, IntoNodeReferences, NodeIndexable, NodeRef};
use petgraph::{Directed, Undirected};
use proptest::prelude::*;
use serde::{Deserialize, Serialize};
use std::hash::Hash;

#[derive(Debug, Clone, Serialize, Deserialize)]
pub struct Case {
    pub g: RawGraph,
    pub enc: u8,
    pub salt: u8,
    /// 0: weights 0..=3 (many ties), 1: -4..=9, 2: 0..=40
    pub wmode: u8,
    pub float: bool,
    /// with float weights: every self-loop carries NaN and one more NaN self-loop is inserted at a
    /// salt-chosen position of the edge list (a self-loop is never a forest edge, so the minimum
    /// stays well defined; `MinScored` documents that NaN scores order last)
    #[serde(default)]
    pub nan: bool,
    /// with `nan`: additionally every k-th edge (k = 2 + salt % 3) carries NaN, bridges included.  The
    /// minimum is then undefined; what is still promised is the structure: nodes first, every edge an
    /// edge of the graph, no cycle, exactly |V| - c edges (Prim: a spanning tree of the first component)
    #[serde(default)]
    pub nan_anywhere: bool,
}

pub fn strategy(tier: Tier) -> BoxedStrategy<Case> {
    let (maxn, maxm) = if tier == Tier::Quick { (9, 22) } else { (16, 50) };
    (raw_graph(0, maxn, maxm, None), any::<u8>(), any::<u8>(), 0u8..3, any::<bool>(), 0u8..4)
        .prop_map(|(g, enc, salt, wmode, float, nan)| Case { g, enc, salt, wmode, float, nan: float && nan == 0, nan_anywhere: float && nan == 0 && salt % 2 == 1 })
        .boxed()
}

/// abstract weight standing for NaN in the float encodings
const NAN_MARK: i32 = 1000;

fn opts(wmode: u8) -> GOpts {
    match wmode % 3 {
        0 => GOpts::new(true, true, 0, 3),
        1 => GOpts::new(true, true, -4, 9),
        _ => GOpts::new(true, true, 0, 40),
    }
}

trait Nid: Copy + Eq + Hash + std::fmt::Debug {}
impl<T: Copy + Eq + Hash + std::fmt::Debug> Nid for T {}

pub trait W: Clone + PartialOrd + PartialEq + std::fmt::Debug {
    fn of(w: i32) -> Self;
    fn back(&self) -> i64;
}
impl W for i32 {
    fn of(w: i32) -> Self {
        w
    }
    fn back(&self) -> i64 {
        *self as i64
    }
}
impl W for f64 {
    fn of(w: i32) -> Self {
        if w == NAN_MARK {
            f64::NAN
        } else {
            w as f64 * 0.25
        }
    }
    fn back(&self) -> i64 {
        if self.is_nan() {
            NAN_MARK as i64
        } else {
            (*self * 4.0) as i64
        }
    }
}

/// Minimum spanning forest weight restricted to the nodes with `inside[v]`, by a naive Prim
/// grown from every not-yet-covered node (direction ignored, loops useless).
fn msf_weight(a: &AGraph, inside: &[bool]) -> (i64, usize) {
    let n = a.n;
    let mut intree = vec![false; n];
    let mut total = 0i64;
    let mut count = 0usize;
    for root in 0..n {
        if !inside[root] || intree[root] {
            continue;
        }
        intree[root] = true;
        loop {
            let mut best: Option<(i32, usize)> = None;
            for &(u, v, w) in &a.edges {
                if u == v || !inside[u] || !inside[v] {
                    continue;
                }
                let nv = if intree[u] && !intree[v] {
                    v
                } else if intree[v] && !intree[u] {
                    u
                } else {
                    continue;
                };
                if best.map_or(true, |(bw, _)| w < bw) {
                    best = Some((w, nv));
                }
            }
            match best {
                Some((w, nv)) => {
                    intree[nv] = true;
                    total += w as i64;
                    count += 1;
                }
                None => break,
            }
        }
    }
    (total, count)
}

/// Sort-based Kruskal with a naive (path-halving, no rank) union-find of its own: the oracle for
/// graphs too large for `msf_weight`; cross-checked against it on every small graph.
fn msf_sorted(a: &AGraph) -> (i64, usize) {
    let mut idx: Vec<usize> = (0..a.m()).collect();
    idx.sort_by_key(|&i| a.edges[i].2);
    let mut parent: Vec<usize> = (0..a.n).collect();
    fn find(p: &mut [usize], mut x: usize) -> usize {
        while p[x] != x {
            p[x] = p[p[x]];
            x = p[x];
        }
        x
    }
    let (mut total, mut count) = (0i64, 0usize);
    for i in idx {
        let (u, v, w) = a.edges[i];
        let (ru, rv) = (find(&mut parent, u), find(&mut parent, v));
        if ru != rv {
            parent[ru] = rv;
            total += w as i64;
            count += 1;
        }
    }
    (total, count)
}

/// exhaustive cross-check of the oracle: minimum over all maximal acyclic edge subsets
fn msf_brute(a: &AGraph) -> Option<i64> {
    let m = a.m();
    if m > 11 {
        return None;
    }
    let (_, c) = a.wcc_ids();
    let need = a.n - c;
    let mut best: Option<i64> = None;
    for mask in 0u32..(1u32 << m) {
        if mask.count_ones() as usize != need {
            continue;
        }
        // acyclic?
        let mut comp: Vec<usize> = (0..a.n).collect();
        let mut ok = true;
        let mut w = 0i64;
        for i in 0..m {
            if mask >> i & 1 == 1 {
                let (u, v, x) = a.edges[i];
                let (cu, cv) = (comp[u], comp[v]);
                if cu == cv {
                    ok = false;
                    break;
                }
                for c in comp.iter_mut() {
                    if *c == cv {
                        *c = cu;
                    }
                }
                w += x as i64;
            }
        }
        if ok && best.map_or(true, |b| w < b) {
            best = Some(w);
        }
    }
    best
}

fn split_stream<N: Clone, E: W>(
    stream: Vec<Element<N, E>>,
    what: &str,
) -> Result<(Vec<N>, Vec<(usize, usize, E)>), Failure> {
    let mut nodes = Vec::new();
    let mut edges = Vec::new();
    for (i, el) in stream.into_iter().enumerate() {
        match el {
            Element::Node { weight } => {
                ensure!(edges.is_empty(), "C12/node-after-edge", "{what}: Node element at position {i} after an Edge element");
                nodes.push(weight);
            }
            Element::Edge { source, target, weight } => edges.push((source, target, weight)),
        }
    }
    Ok((nodes, edges))
}

/// check an edge list (positions into `order`) is a forest of edges of `a`; returns (weight, component ids)
fn check_forest<E: W>(a: &AGraph, order: &[usize], edges: &[(usize, usize, E)], what: &str) -> Result<(i64, Vec<usize>), Failure> {
    let mut used = vec![false; a.m()];
    let mut comp: Vec<usize> = (0..a.n).collect();
    let mut total = 0i64;
    for (s, t, w) in edges {
        ensure!(*s < order.len() && *t < order.len(), "C12/edge-position-out-of-range", "{what}: edge ({s},{t}) names a position beyond the {} nodes", order.len());
        let (u, v) = (order[*s], order[*t]);
        let wi = w.back();
        let hit = (0..a.m()).find(|&i| {
            !used[i] && a.edges[i].2 as i64 == wi && ((a.edges[i].0 == u && a.edges[i].1 == v) || (a.edges[i].0 == v && a.edges[i].1 == u))
        });
        let Some(hit) = hit else {
            return fail("C12/edge-not-in-graph", format!("{what}: edge {u}-{v} with weight {w:?} is not an (unused) edge of the graph"));
        };
        used[hit] = true;
        ensure!(comp[u] != comp[v], "C12/cycle", "{what}: edge {u}-{v} closes a cycle");
        let (cu, cv) = (comp[u], comp[v]);
        for c in comp.iter_mut() {
            if *c == cv {
                *c = cu;
            }
        }
        total += wi;
    }
    Ok((total, comp))
}

fn check<G, E, NW>(g: G, v: &View<G::NodeId>, prim: bool, wl: fn(&NW) -> usize, obs: &mut Obs) -> Result<(), Failure>
where
    G: IntoNodeReferences + IntoEdgeReferences + IntoEdges + NodeIndexable + Copy,
    G: petgraph::visit::Data<NodeWeight = NW, EdgeWeight = E>,
    G::NodeId: Nid,
    E: W,
    NW: Clone,
{
    let a = v.a;
    let n = a.n;
    // NaN on an edge that can be a forest edge: the minimum is undefined, only the structure is checked
    let nan_any = a.edges.iter().any(|e| e.2 == NAN_MARK && e.0 != e.1);
    // expected node order = node_references order
    let order: Vec<usize> = g.node_references().map(|r| v.label(r.id(), "node_references")).collect::<Result<_, _>>()?;
    let all = vec![true; n];
    let (best, forest_edges) = if n <= 40 {
        let r = msf_weight(a, &all);
        ensure_eq!(msf_sorted(a), r, "C12/oracle-self-check", "naive Prim vs sort-based Kruskal oracle");
        r
    } else {
        msf_sorted(a)
    };
    let (_, ncomp) = a.wcc_ids();
    ensure_eq!(forest_edges, n - ncomp, "C12/oracle-self-check", "oracle forest size");
    if let Some(b) = msf_brute(a) {
        ensure_eq!(b, best, "C12/oracle-self-check", "naive Prim vs exhaustive enumeration");
        obs.label("oracle cross-checked exhaustively");
    }

    // ---- Kruskal ----
    let stream: Vec<Element<NW, E>> = min_spanning_tree(g).take(2 * n + a.m() + 4).collect();
    let (nodes, edges) = split_stream(stream.clone(), "min_spanning_tree")?;
    let nodes: Vec<usize> = nodes.iter().map(wl).collect();
    ensure_eq!(nodes, order, "C12/kruskal-nodes", "min_spanning_tree: node elements vs node_references order");
    let (total, _) = check_forest(a, &order, &edges, "min_spanning_tree")?;
    ensure_eq!(edges.len(), n - ncomp, "C12/kruskal-edge-count", "min_spanning_tree: number of edges (|V|-c)");
    if !nan_any {
        ensure_eq!(total, best, "C12/kruskal-weight", "min_spanning_tree: total weight vs minimum");
    }
    // the graph built from the element stream
    let built: UnGraph<NW, E> = UnGraph::from_elements(stream);
    ensure_eq!(built.node_count(), n, "C12/from_elements-nodes", "from_elements(min_spanning_tree): node count");
    ensure_eq!(built.edge_count(), edges.len(), "C12/from_elements-edges", "from_elements(min_spanning_tree): edge count");
    for (i, l) in order.iter().enumerate() {
        ensure_eq!(wl(&built[NodeIndex::new(i)]), *l, "C12/from_elements-node-weight", "from_elements: weight of node {i}");
    }
    for (e, (s, t, w)) in built.edge_references().zip(edges.iter()) {
        ensure!(e.source().index() == *s && e.target().index() == *t && e.weight().back() == w.back(), "C12/from_elements-edge", "from_elements: edge {:?} vs element ({s},{t},{w:?})", (e.source(), e.target(), e.weight()));
    }

    // ---- Prim (undirected graphs) ----
    if prim && !a.directed {
        let stream: Vec<Element<NW, E>> = min_spanning_tree_prim(g).take(2 * n + a.m() + 4).collect();
        let (nodes, edges) = split_stream(stream, "min_spanning_tree_prim")?;
        let nodes: Vec<usize> = nodes.iter().map(wl).collect();
        ensure_eq!(nodes, order, "C12/prim-nodes", "min_spanning_tree_prim: node elements vs node_references order");
        let (total, comp) = check_forest(a, &order, &edges, "min_spanning_tree_prim")?;
        if n > 0 {
            let first = order[0];
            let (ids, _) = a.wcc_ids();
            let inside: Vec<bool> = (0..n).map(|l| ids[l] == ids[first]).collect();
            let size = inside.iter().filter(|&&b| b).count();
            let (best1, _) = if size == n { (best, 0) } else { msf_weight(a, &inside) };
            ensure_eq!(edges.len(), size - 1, "C12/prim-edge-count", "min_spanning_tree_prim: number of edges (first component has {size} nodes)");
            for l in 0..n {
                ensure_eq!(comp[l] == comp[first], inside[l], "C12/prim-span", "min_spanning_tree_prim: node {l} connected to the first node");
            }
            if !nan_any {
                ensure_eq!(total, best1, "C12/prim-weight", "min_spanning_tree_prim: total weight vs minimum for the first node's component");
                if ncomp == 1 {
                    ensure_eq!(total, best, "C12/prim-weight", "min_spanning_tree_prim on a connected graph vs Kruskal optimum");
                }
            }
        } else {
            ensure!(edges.is_empty(), "C12/prim-edge-count", "edges on an empty graph");
        }
        obs.label("prim checked");
    }
    // non-trivial: >= 2 components, or a cycle whose heaviest edge is unique (the answer is forced)
    obs.nontrivial = ncomp >= 2 && n >= 3 || a.m() > n - ncomp;
    obs.label_if(ncomp >= 2, ">=2 components");
    Ok(())
}

pub fn run(c: &Case) -> Outcome {
    let mut a0 = c.g.build(&opts(c.wmode));
    let n = a0.n;
    let mut obs = Obs::default();
    let enc = c.enc % 6;
    if c.float && c.nan && n > 0 {
        for e in a0.edges.iter_mut() {
            if e.0 == e.1 {
                e.2 = NAN_MARK;
            }
        }
        let at = c.salt as usize % (a0.edges.len() + 1);
        let v = (c.salt as usize / 7) % n;
        a0.edges.insert(at, (v, v, NAN_MARK));
        obs.label("NaN self-loops");
        if c.nan_anywhere {
            let k = 2 + c.salt as usize % 3;
            for (i, e) in a0.edges.iter_mut().enumerate() {
                if i % k == 0 {
                    e.2 = NAN_MARK;
                }
            }
            obs.label("NaN on arbitrary edges (structure only)");
        }
    }
    let simple = super::c10::simplified_min(&a0);
    let a = if enc >= 2 { &simple } else { &a0 };
    let salt = c.salt as u64 + 1;
    macro_rules! go {
        ($w:ty) => {{
            let wf = |w: i32| <$w as W>::of(w);
            match (enc, a.directed) {
                (0, true) => {
                    let g: Graph<usize, $w, Directed, u32> = to_graph(a, wf);
                    check(&g, &View::full(a, (0..n).map(NodeIndex::new)), false, |l: &usize| *l, &mut obs)?;
                    obs.label("Graph directed");
                }
                (0, false) => {
                    let g: Graph<usize, $w, Undirected, u32> = to_graph(a, wf);
                    check(&g, &View::full(a, (0..n).map(NodeIndex::new)), true, |l: &usize| *l, &mut obs)?;
                    obs.label("Graph undirected");
                }
                (1, true) => {
                    let (g, map) = to_stable_holes::<$w, Directed, u32>(a, salt, wf);
                    check(&g, &View::full(a, map), false, |l: &usize| *l, &mut obs)?;
                    obs.label("StableGraph directed, holes");
                }
                (1, false) => {
                    let (g, map) = to_stable_holes::<$w, Undirected, u16>(a, salt, wf);
                    check(&g, &View::full(a, map), true, |l: &usize| *l, &mut obs)?;
                    obs.label("StableGraph undirected, holes");
                }
                (2, true) | (5, true) => {
                    let g = to_graphmap::<$w, Directed>(a, wf);
                    check(&g, &View::full(a, (0..n).map(gm_key)), false, |k: &i32| gm_label(*k), &mut obs)?;
                    obs.label("GraphMap directed");
                }
                (2, false) | (5, false) => {
                    let g = to_graphmap::<$w, Undirected>(a, wf);
                    check(&g, &View::full(a, (0..n).map(gm_key)), true, |k: &i32| gm_label(*k), &mut obs)?;
                    obs.label("GraphMap undirected");
                }
                (3, true) => {
                    let g = to_csr::<$w, Directed>(a, wf);
                    check(&g, &View::full(a, (0..n).map(|i| i as u32)), false, |l: &usize| *l, &mut obs)?;
                    obs.label("Csr directed");
                }
                (3, false) => {
                    let g = to_csr::<$w, Undirected>(a, wf);
                    check(&g, &View::full(a, (0..n).map(|i| i as u32)), true, |l: &usize| *l, &mut obs)?;
                    obs.label("Csr undirected");
                }
                (_, true) => {
                    let (g, map) = to_matrix_holes::<$w, Directed>(a, salt, wf);
                    check(&g, &View::full(a, map), false, |l: &usize| *l, &mut obs)?;
                    obs.label("MatrixGraph directed, holes");
                }
                (_, false) => {
                    let (g, map) = to_matrix_holes::<$w, Undirected>(a, salt, wf);
                    check(&g, &View::full(a, map), true, |l: &usize| *l, &mut obs)?;
                    obs.label("MatrixGraph undirected, holes");
                }
            }
        }};
    }
    if c.float {
        go!(f64)
    } else {
        go!(i32)
    }
    Ok(obs)
}

// ---------------------------------------------------------------------------------------------
// large graphs: union-find ranks, heap sizes and node_bound-sized tables beyond 256 elements

#[derive(Debug, Clone, Serialize, Deserialize)]
pub struct BigCase {
    /// 0 star (centre is the source of every spoke), 1 star (centre is the target), 2 path with
    /// increasing weights, 3 path with decreasing weights, 4 random recursive tree, 5 caterpillar
    pub kind: u8,
    pub n: u16,
    pub seed: u32,
    /// extra edges (endpoints mapped into 0..n), weights 0..=255
    pub extra: Vec<(u16, u16, u8)>,
    pub directed: bool,
    pub stable: bool,
    pub salt: u8,
}

pub fn big_strategy(tier: Tier) -> BoxedStrategy<BigCase> {
    let maxn: u16 = if tier == Tier::Quick { 420 } else { 900 };
    (0u8..6, 2u16..=maxn, any::<u32>(), proptest::collection::vec((any::<u16>(), any::<u16>(), any::<u8>()), 0..60), any::<bool>(), any::<bool>(), any::<u8>())
        .prop_map(|(kind, n, seed, extra, directed, stable, salt)| BigCase { kind, n, seed, extra, directed, stable, salt })
        .boxed()
}

pub fn run_big(c: &BigCase) -> Outcome {
    let n = c.n as usize;
    let mut x = c.seed as u64 | 1 << 40;
    let mut rnd = move || {
        x ^= x << 13;
        x ^= x >> 7;
        x ^= x << 17;
        x
    };
    let mut edges: Vec<(usize, usize, i32)> = Vec::new();
    for i in 1..n {
        let w = (rnd() % 50) as i32;
        match c.kind % 6 {
            0 => edges.push((0, i, w)),
            1 => edges.push((i, 0, w)),
            2 => edges.push((i - 1, i, i as i32)),
            3 => edges.push((i - 1, i, (n - i) as i32)),
            4 => edges.push(((rnd() % i as u64) as usize, i, w)),
            _ => {
                // caterpillar: a spine of every third node, legs hanging off it
                if i % 3 == 0 {
                    edges.push((i - 3.min(i), i, w))
                } else {
                    edges.push((i - i % 3, i, w))
                }
            }
        }
    }
    for &(p, q, w) in &c.extra {
        edges.push((p as usize * n >> 16, q as usize * n >> 16, w as i32));
    }
    let a = AGraph { directed: c.directed, n, edges };
    let mut obs = Obs::default();
    let salt = c.salt as u64 + 1;
    match (c.stable, c.directed) {
        (false, true) => {
            let g: Graph<usize, i32, Directed, u16> = to_graph(&a, |w| w);
            check(&g, &View::full(&a, (0..n).map(NodeIndex::new)), false, |l: &usize| *l, &mut obs)?;
        }
        (false, false) => {
            let g: Graph<usize, i32, Undirected, u32> = to_graph(&a, |w| w);
            check(&g, &View::full(&a, (0..n).map(NodeIndex::new)), true, |l: &usize| *l, &mut obs)?;
        }
        (true, true) => {
            let (g, map) = to_stable_holes::<i32, Directed, u32>(&a, salt, |w| w);
            check(&g, &View::full(&a, map), false, |l: &usize| *l, &mut obs)?;
        }
        (true, false) => {
            let (g, map) = to_stable_holes::<i32, Undirected, u16>(&a, salt, |w| w);
            check(&g, &View::full(&a, map), true, |l: &usize| *l, &mut obs)?;
        }
    }
    obs.label(match c.kind % 6 {
        0 | 1 => "star",
        2 | 3 => "path",
        4 => "random recursive tree",
        _ => "caterpillar",
    });
    obs.label_if(n > 256, "more than 256 nodes");
    obs.nontrivial = n > 256;
    Ok(obs)
}

/// bounded-exhaustive scope: every undirected graph on 1..=4 nodes (loops included) with every assignment
/// of the weights {0, 1, 3} to its edges, and every such digraph on 1..=3 nodes, x encoding; i32 and f64 alternate
const ENUM_P: u64 = 6;
fn enum_count(_tier: Tier) -> u64 {
    small_weighted_count(3, 4) * ENUM_P
}
fn enum_make(_tier: Tier, i: u64) -> Case {
    let (dir, n, code) = small_weighted(i / ENUM_P, 3, 4).expect("index within the scope");
    // wmode 0 = weights 0..=3: weight(byte) = byte * 4 >> 8: 0 -> 0, 64 -> 1, 192 -> 3
    Case { g: raw_quaternary(dir, n, code, [0, 64, 192]), enc: (i % ENUM_P) as u8, salt: (i % 251) as u8, wmode: 0, float: (i / ENUM_P) % 2 == 1, nan: false, nan_anywhere: false }
}

/// libFuzzer entry / from-bytes generator: bring a decoded case into the domain of `strategy`
pub fn fuzz_domain(c: &mut Case) -> bool {
    c.g.sanitize(0, 16, 50, None);
    c.wmode %= 3;
    c.nan &= c.float;
    c.nan_anywhere &= c.nan;
    true
}
pub fn bytes_strategy(_tier: Tier) -> BoxedStrategy<Case> {
    decoded_strategy(fuzz_domain)
}

pub fn property() -> Property {
    Property {
        id: "C12",
        rule: "random weighted multigraphs with loops and many equal weights (0..=9 nodes quick, 1-4 components, three weight ranges, i32 and exact f64) in Graph / StableGraph+MatrixGraph with vacancies / GraphMap / Csr; the element stream is checked structurally (nodes first in node_references order, every edge a distinct edge of the graph with that weight, acyclic, |V|-c edges) and its total weight compared with a naive Prim oracle that is itself cross-checked by exhaustive subset enumeration when m<=11; Prim checked on undirected storage for the first node's component; from_elements result compared with the stream; with f64 weights a quarter of the cases put NaN on every self-loop (never a forest edge) to exercise MinScored's NaN ordering in the heaps; non-trivial = >=2 components (n>=3) or at least one non-tree edge; sub-check mst/large: stars, paths, random trees and caterpillars of 2..=420 nodes (900 thorough) plus up to 60 random extra edges in Graph/StableGraph, oracle = sort-based Kruskal with its own union-find, non-trivial = more than 256 nodes; distinct by case fingerprint; bounded-exhaustive sub-check: every undirected graph on 1..=4 nodes and digraph on 1..=3 nodes (loops included) with every assignment of the weights {0,1,3} x 6 encodings, i32 and f64",
        assumptions: &["float weights are multiples of 0.25 (exact sums)"],
        both_profiles: false,
        subs: vec![sub_fuzz("mst/kruskal+prim", 1_500_000, 40_000_000, strategy, run, fuzz_domain), sub("mst/kruskal+prim-from-bytes", 400_000, 8_000_000, bytes_strategy, run), sub_enum("mst/all-small-weighted-graphs", enum_count, enum_make, run), sub("mst/large", 6_000, 50_000, big_strategy, run_big)],
    }
}
