use pgcheck::{engine, props};

use engine::Tier;
use std::path::Path;

fn replay_needs_isolation(path: &str) -> bool {
    std::fs::read_to_string(path).ok().and_then(|s| serde_json::from_str::<engine::ReplayFile>(&s).ok()).map_or(false, |rf| rf.sig.starts_with("abort:"))
}

fn usage() -> i32 {
    eprintln!("usage: pgcheck run <Cxx> <quick|thorough> [--emit-json] [--only <sub>] | pgcheck replay <file> | pgcheck list");
    2
}

fn main() {
    // silent panic hook: panics are caught and judged by the oracles
    if std::env::var("PGCHECK_PANIC_TRACE").is_err() {
        std::panic::set_hook(Box::new(|_| {}));
    }
    let args: Vec<String> = std::env::args().skip(1).collect();
    let props = props::all();
    let code = match args.first().map(|s| s.as_str()) {
        Some("list") => {
            for p in &props {
                println!("{}: {}", p.id, p.subs.iter().map(|s| s.name().to_string()).collect::<Vec<_>>().join(", "));
            }
            0
        }
        Some("run") if args.len() >= 3 => {
            let tier = match args[2].as_str() {
                "quick" => Tier::Quick,
                "thorough" => Tier::Thorough,
                _ => std::process::exit(usage()),
            };
            let emit = args.iter().any(|a| a == "--emit-json");
            let only = args.iter().position(|a| a == "--only").and_then(|i| args.get(i + 1)).map(|s| s.as_str());
            engine::run_property(&props, &args[1], tier, emit, only)
        }
        Some("fuzz-smoke") if args.len() >= 4 => {
            // pgcheck fuzz-smoke <Cxx> <sub> <count>: the libFuzzer entry point driven by plain pseudo-random
            // byte strings (no instrumentation): checks that the decoder + domain function only produce legal cases
            let count = args[3].parse::<u64>().unwrap_or(100_000);
            let Some(sc) = props.iter().find(|p| p.id == args[1]).and_then(|p| p.subs.iter().find(|s| s.name() == args[2])) else { return std::process::exit(2) };
            let mut x: u64 = 0x9E3779B97F4A7C15;
            let mut next = move || {
                x ^= x << 13;
                x ^= x >> 7;
                x ^= x << 17;
                x
            };
            let mut bad = 0;
            for i in 0..count {
                let len = (next() % 700) as usize;
                let small = next() % 3 == 0;
                let data: Vec<u8> = (0..len).map(|_| { let v = next(); if small && v % 4 != 0 { (v >> 8) as u8 % 24 } else { (v >> 8) as u8 } }).collect();
                if let Some((f, case)) = sc.run_from_bytes(&data) {
                    bad += 1;
                    if bad <= 3 {
                        eprintln!("input {i}: {}: {}\n  case {}", f.sig, f.msg, case.to_string().chars().take(600).collect::<String>());
                    }
                }
            }
            eprintln!("{count} inputs, {bad} failing");
            if bad == 0 { 0 } else { 1 }
        }
        Some("fuzz-seeds") if args.len() >= 5 => {
            // pgcheck fuzz-seeds <dir> <Cxx> <sub> <count>: cases from the proptest strategy, encoded for the `ops` target
            let count = args[4].parse::<usize>().unwrap_or(64);
            let seed = std::env::var("VERIF_SEED").ok().and_then(|s| s.parse::<u64>().ok()).unwrap_or(0);
            match props.iter().find(|p| p.id == args[2]).and_then(|p| p.subs.iter().find(|s| s.name() == args[3])) {
                Some(sc) => {
                    let n = sc.seed_corpus(Path::new(&args[1]), count, seed);
                    eprintln!("{n} seed cases written to {}", args[1]);
                    if n > 0 { 0 } else { 2 }
                }
                None => 2,
            }
        }
        Some("fuzz-seeds") if args.len() >= 2 => {
            props::c17::write_seed_corpus(Path::new(&args[1]));
            0
        }
        Some("run-case") if args.len() >= 4 => engine::run_case_file(&props, &args[1], &args[2], Path::new(&args[3])),
        Some("replay") if args.len() >= 2 && replay_needs_isolation(&args[1]) => {
            // the pinned case kills the process: run it in a child and judge the exit status
            let rf: engine::ReplayFile = serde_json::from_str(&std::fs::read_to_string(&args[1]).unwrap()).unwrap();
            let tmp = std::env::temp_dir().join(format!("pgcheck-replay-{}.json", std::process::id()));
            std::fs::write(&tmp, rf.case.to_string()).unwrap();
            let st = std::process::Command::new(std::env::current_exe().unwrap()).args(["run-case", &rf.property, &rf.sub]).arg(&tmp).status();
            let _ = std::fs::remove_file(&tmp);
            match st.map(|s| s.code()) {
                Ok(Some(0)) => {
                    println!("PASS property={} sub={}", rf.property, rf.sub);
                    0
                }
                Ok(c) => {
                    println!("VIOLATION property={} replay={}", rf.property, args[1]);
                    println!("  sub={} signature: {} (child exit {:?})", rf.sub, rf.sig, c);
                    1
                }
                Err(_) => 2,
            }
        }
        Some("replay") if args.len() >= 2 => match engine::replay_file(&props, Path::new(&args[1])) {
            Err(e) => {
                eprintln!("{e}");
                2
            }
            Ok((p, s, Ok(obs))) => {
                println!("PASS property={p} sub={s} nontrivial={} labels={:?}", obs.nontrivial, obs.labels);
                0
            }
            Ok((p, s, Err(f))) => {
                println!("VIOLATION property={p} replay={}", args[1]);
                println!("  sub={s} signature: {}", f.sig);
                println!("  {}", f.msg);
                1
            }
        },
        _ => usage(),
    };
    std::process::exit(code);
}
