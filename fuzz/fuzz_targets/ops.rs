#![no_main]
//! Operation histories for the container state machines: the first byte selects the sub-check, the rest
//! is fed to its proptest strategy through the pass-through RNG, so libFuzzer's coverage feedback steers
//! the same generators and oracles that the proptest campaigns use.
use libfuzzer_sys::fuzz_target;

const TARGETS: &[(&str, &str)] = &[
    ("C01", "graph/history"),
    ("C02", "stable/history"),
    ("C04", "matrix/history"),
    ("C03", "graphmap/history"),
    ("C05", "csr/history"),
    ("C05", "list/history"),
    ("C14", "acyclic/history"),
    ("C19", "unionfind/history"),
];

fuzz_target!(|data: &[u8]| {
    if data.len() < 2 {
        return;
    }
    let sel = std::env::var("PGFUZZ_TARGET").ok().and_then(|s| s.parse::<usize>().ok()).unwrap_or(data[0] as usize);
    let (prop, sub) = TARGETS[sel % TARGETS.len()];
    static PROPS: std::sync::OnceLock<Vec<pgcheck::engine::Property>> = std::sync::OnceLock::new();
    let props = PROPS.get_or_init(pgcheck::props::all);
    pgcheck::engine::fuzz_one(props, prop, sub, &data[1..]);
});
