#!/bin/sh
# seed_try_all.sh <Cxx> [check-id]: run the check against m1..m3 (foreground only: patches /repo temporarily), keep them
ID=$1; CK=${2:-$1}
SEEDROOT=${SEEDROOT:-/tmp/seed}; export SEEDROOT SEEDTAG
cd /verif
for m in m1 m2 m3; do
  [ -d $SEEDROOT/$ID/$m ] || continue
  out=$(tools/try_seed.sh $SEEDROOT/$ID/$m/patch.diff $CK 2>&1); rc=$(echo "$out" | grep -o "rc=[0-9]*$" | tail -1)
  sig=$(echo "$out" | grep "signature:" | head -1 | sed 's/^ *signature: //')
  echo "$ID $m $rc sig=[$sig]"
  if [ "$rc" = "rc=1" ]; then tools/keep_seed.py $ID $m $SEEDROOT/$ID/confirm.log yes "./check $CK quick: VIOLATION signature $sig" >/dev/null
  else tools/keep_seed.py $ID $m $SEEDROOT/$ID/confirm.log no "./check $CK quick: $rc (not detected)" >/dev/null; fi
done
