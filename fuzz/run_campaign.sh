#!/bin/sh
# run_campaign.sh <Cxx>: coverage-guided (libFuzzer) campaigns for the property, thorough tier only.
# Same oracles as the proptest campaigns (see fuzz_targets/).  Fixed work: PGFUZZ_PROCS processes per
# target (seeds VERIF_SEED, VERIF_SEED+1, ...), each -runs=PGFUZZ_RUNS from its own copy of the
# starting corpus.  Exit 0 nothing found, 1 VIOLATION (line printed, replay file written by the
# target), 2 inconclusive (build failure / fuzzer error / libFuzzer timeout or OOM).
ID=$1
F=/verif/fuzz
SEED=${VERIF_SEED:-1}
[ "$SEED" = 0 ] && SEED=1
RUNS=${PGFUZZ_RUNS:-120000}
PROCS=${PGFUZZ_PROCS:-8}
case "$ID" in
C17) JOBS="deser_bytes:-" ;;
C01) JOBS="ops:0" ;;
C02) JOBS="ops:1" ;;
C04) JOBS="ops:2" ;;
C03) JOBS="ops:3" ;;
C05) JOBS="ops:4 ops:5" ;;
C14) JOBS="ops:6" ;;
C19) JOBS="ops:7" ;;
C08) JOBS="ops:8" ;;
C09) JOBS="ops:9" ;;
C10) JOBS="ops:10" ;;
C11) JOBS="ops:11" ;;
C12) JOBS="ops:12" ;;
C15) JOBS="ops:13 ops:14" ;;
C16) JOBS="ops:15 ops:16" ;;
*) exit 0 ;;
esac
cd /verif/harness || exit 2
export CARGO_NET_OFFLINE=true
# AddressSanitizer reserves terabytes of address space: lift the (soft) limit ./check sets for the proptest run
ulimit -S -v unlimited 2>/dev/null
# rebuilds the instrumented harness (and petgraph from /repo's working tree) when anything changed
if ! cargo +nightly fuzz build --fuzz-dir "$F" >"$F/build.log" 2>&1; then
    tail -20 "$F/build.log"; echo "INCONCLUSIVE property=$ID: fuzz build failed"; exit 2
fi
BIN="$F/target/x86_64-unknown-linux-gnu/release"
rc=0
for job in $JOBS; do
    target=${job%%:*}; sel=${job##*:}
    base="$F/work/$ID-$target-$sel"
    rm -rf "$base" "$base".*; mkdir -p "$base" "$F/artifacts/$ID"
    if [ "$target" = deser_bytes ]; then
        /verif/harness/target/release/pgcheck fuzz-seeds "$base" || exit 2
        maxlen=600
        unset PGFUZZ_TARGET
    else
        export PGFUZZ_TARGET=$sel
        case "$sel" in
        0) subname=graph/history ;; 1) subname=stable/history ;; 2) subname=matrix/history ;; 3) subname=graphmap/history ;;
        4) subname=csr/history ;; 5) subname=list/history ;; 6) subname=acyclic/history ;; 7) subname=unionfind/history ;;
        8) subname=traversal/walkers+dfsvisit ;; 9) subname=connectivity/all ;; 10) subname=shortest/nonneg ;;
        11) subname=negcost/general ;; 12) subname=mst/kruskal+prim ;; 13) subname=matching/validity+maximum ;;
        14) subname=flow/ford_fulkerson ;; 15) subname=dominators/simple_fast ;; 16) subname=articulation_points/brute ;;
        esac
        # starting corpus: 96 histories drawn from the proptest strategy (encoded with pgcheck::fuzzde) + the empty input
        VERIF_SEED=$SEED /verif/harness/target/release/pgcheck fuzz-seeds "$base" "$ID" "$subname" 96 2>/dev/null || exit 2
        : > "$base/empty"
        maxlen=1500
    fi
    p=0
    while [ $p -lt "$PROCS" ]; do
        work="$base.$p"; cp -r "$base" "$work"
        "$BIN/$target" "$work" -runs="$RUNS" -seed=$((SEED + p)) -max_len=$maxlen -len_control=0 \
            -artifact_prefix="$F/artifacts/$ID/" -timeout=120 -rss_limit_mb=6000 -print_final_stats=1 >"$work.log" 2>&1 &
        eval "pid$p=$!"
        p=$((p + 1))
    done
    p=0; execs=0; cov=0; worst=0
    while [ $p -lt "$PROCS" ]; do
        eval "wait \$pid$p"; frc=$?
        out="$base.$p.log"
        e=$(grep -o "stat::number_of_executed_units: *[0-9]*" "$out" | grep -o "[0-9]*$" | tail -1)
        c=$(grep -o "cov: [0-9]*" "$out" | tail -1 | grep -o "[0-9]*")
        execs=$((execs + ${e:-0})); [ "${c:-0}" -gt "$cov" ] && cov=$c
        if [ $frc -ne 0 ]; then
            if grep -q "^VIOLATION property=" "$out"; then
                if [ $rc != 1 ]; then grep -m1 -A 2 "^VIOLATION property=" "$out"; fi
                rc=1
            else
                tail -5 "$out"; echo "INCONCLUSIVE property=$ID: libFuzzer process $p of $target/$sel ended with code $frc without a violation line (timeout / oom / fuzzer error)"
                [ $rc = 0 ] && rc=2
            fi
            [ $frc -gt $worst ] && worst=$frc
        fi
        p=$((p + 1))
    done
    echo "[fuzz $ID $target/$sel] processes=$PROCS executions=$execs max_coverage_counters=$cov worst_exit=$worst"
    python3 - "$ID" "$target/$sel" "$execs" "$cov" "$worst" "$PROCS" <<'PY'
import json,sys
pid,tgt,execs,cov,frc,procs=sys.argv[1:7]
p=f"/verif/evidence/{pid}.json"
try:
    e=json.load(open(p))
    e["coverage"].setdefault("libfuzzer_campaigns",[]).append({"target":tgt,"processes":int(procs),"executions":int(execs),"coverage_counters":int(cov),"worst_exit_code":int(frc)})
    e["coverage"]["evaluations"]+=int(execs)
    json.dump(e,open(p,"w"),indent=1)
except Exception as ex:
    print("evidence update failed:",ex)
PY
    rm -rf "$base" "$base".[0-9]*
done
exit $rc
