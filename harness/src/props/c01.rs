//! C01 — Graph behaves as a compact-indexed multigraph under every operation history.

use crate::engine::*;
use crate::gmodel::*;
use crate::util::pick;
use petgraph::data::{Build, DataMapMut, Element, FromElements};
use petgraph::graph::{EdgeIndex, Graph, GraphError, IndexType, NodeIndex};
use petgraph::stable_graph::StableGraph;
use petgraph::visit::IntoNodeReferences;
use petgraph::Direction::{Incoming, Outgoing};
use petgraph::{Directed, EdgeType, Undirected};
use proptest::prelude::*;
use serde::{Deserialize, Serialize};

#[derive(Debug, Clone, Serialize, Deserialize)]
pub enum Op {
    AddNode(u8),
    AddEdge(u8, u16, u16),
    RemoveNode(u16),
    RemoveEdge(u16),
    RetainNodes(u32, bool),
    RetainEdges(u64, bool),
    Reverse,
    Clear,
    ClearEdges,
    Extend(Vec<(u16, u16)>),
    SetNode(u16, u8),
    SetEdge(u16, u8),
    IndexTwice(u16, u16, bool),
    Map,
    FilterMap(u32, u64),
    CloneReplace(bool),
    EdgeTypeRoundTrip,
    StableRoundTrip,
    FromElementsRoundTrip,
    Capacity(u8, u8),
    BulkNodes(u8),
    BulkEdges(u8, u16),
}

#[derive(Debug, Clone, Serialize, Deserialize)]
pub struct Case {
    pub directed: bool,
    /// 0 u8, 1 u16, 2 u32, 3 usize
    pub width: u8,
    pub ops: Vec<Op>,
}

fn op_strategy() -> impl Strategy<Value = Op> {
    let s = any::<u16>;
    prop_oneof![
        10 => (0u8..3).prop_map(Op::AddNode),
        24 => (0u8..6, s(), s()).prop_map(|(k, a, b)| Op::AddEdge(k, a, b)),
        8 => s().prop_map(Op::RemoveNode),
        8 => s().prop_map(Op::RemoveEdge),
        2 => (any::<u32>(), any::<bool>()).prop_map(|(m, b)| Op::RetainNodes(m, b)),
        2 => (any::<u64>(), any::<bool>()).prop_map(|(m, b)| Op::RetainEdges(m, b)),
        3 => Just(Op::Reverse),
        1 => Just(Op::Clear),
        1 => Just(Op::ClearEdges),
        3 => proptest::collection::vec((s(), s()), 0..5).prop_map(Op::Extend),
        3 => (s(), 0u8..4).prop_map(|(a, k)| Op::SetNode(a, k)),
        3 => (s(), 0u8..4).prop_map(|(a, k)| Op::SetEdge(a, k)),
        2 => (s(), s(), any::<bool>()).prop_map(|(a, b, k)| Op::IndexTwice(a, b, k)),
        2 => Just(Op::Map),
        3 => (any::<u32>(), any::<u64>()).prop_map(|(a, b)| Op::FilterMap(a, b)),
        2 => any::<bool>().prop_map(Op::CloneReplace),
        2 => Just(Op::EdgeTypeRoundTrip),
        2 => Just(Op::StableRoundTrip),
        1 => Just(Op::FromElementsRoundTrip),
        2 => (0u8..8, any::<u8>()).prop_map(|(a, b)| Op::Capacity(a, b)),
    ]
}

pub fn strategy(tier: Tier) -> BoxedStrategy<Case> {
    let maxops = if tier == Tier::Quick { 40 } else { 160 };
    (any::<bool>(), 0u8..4, proptest::collection::vec(op_strategy(), 0..=maxops))
        .prop_map(|(directed, width, ops)| Case { directed, width, ops })
        .boxed()
}

/// histories that reach the u8 index limit (255 nodes / 255 edges)
pub fn capacity_strategy(tier: Tier) -> BoxedStrategy<Case> {
    let maxops = if tier == Tier::Quick { 14 } else { 40 };
    let bulk = prop_oneof![
        3 => (200u8..=255).prop_map(Op::BulkNodes),
        3 => ((200u8..=255), any::<u16>()).prop_map(|(k, s)| Op::BulkEdges(k, s)),
        1 => (0u8..40).prop_map(Op::BulkNodes),
        1 => ((0u8..60), any::<u16>()).prop_map(|(k, s)| Op::BulkEdges(k, s)),
    ];
    (any::<bool>(), proptest::collection::vec(prop_oneof![2 => bulk, 3 => op_strategy()], 1..=maxops))
        .prop_map(|(directed, ops)| Case { directed, width: 0, ops })
        .boxed()
}

fn limit<Ix: IndexType>() -> usize {
    let m = <Ix as IndexType>::max().index();
    if m == !0 {
        usize::MAX
    } else {
        m
    }
}

fn unexpected_panic(what: &str, e: String) -> Failure {
    Failure { sig: format!("C01/panic-in-{what}"), msg: format!("{what} panicked: {e}") }
}

struct St {
    renumbered_then_mutated: bool,
    renumbered: bool,
    labels: Vec<&'static str>,
}

fn run_ty<Ty: EdgeType, Other: EdgeType, Ix: IndexType>(c: &Case) -> Outcome {
    let directed = Ty::is_directed();
    let mut g: Graph<W, W, Ty, Ix> = Graph::with_capacity(0, 0);
    let mut m = Model::new(directed);
    let lim = limit::<Ix>();
    let mut st = St { renumbered_then_mutated: false, renumbered: false, labels: Vec::new() };
    observe(&g, &m, "C01", true, false)?;

    for (step, op) in c.ops.iter().enumerate() {
        let n = m.nodes.len();
        let e = m.edges.len();
        let at = format!("step {step} {op:?} (n={n}, m={e})");
        let before = m.clone();
        let mut mutated = true;
        macro_rules! bad {
            ($sig:expr, $($arg:tt)*) => {
                return Err(Failure { sig: format!("C01/{}", $sig), msg: format!("{}: {}", at, format!($($arg)*)) })
            };
        }
        match op {
            Op::AddNode(kind) => {
                let w = m.fresh();
                let full = n >= lim;
                match kind {
                    0 | 2 => {
                        let r = guarded(|| if *kind == 0 { g.add_node(w) } else { Build::add_node(&mut g, w) });
                        match (r, full) {
                            (Ok(i), false) => {
                                if i.index() != n {
                                    bad!("add_node-index", "returned {}, expected {n}", i.index());
                                }
                                m.nodes.push(Some(w));
                            }
                            (Err(_), true) => st.labels.push("add_node at the index limit"),
                            (Ok(i), true) => bad!("add_node-no-panic-at-limit", "returned {:?} at the index limit", i),
                            (Err(e), false) => return Err(unexpected_panic("add_node", e)),
                        }
                    }
                    _ => match (g.try_add_node(w), full) {
                        (Ok(i), false) => {
                            if i.index() != n {
                                bad!("add_node-index", "try_add_node returned {}, expected {n}", i.index());
                            }
                            m.nodes.push(Some(w));
                        }
                        (Err(GraphError::NodeIxLimit), true) => st.labels.push("try_add_node at the index limit"),
                        (r, _) => bad!("try_add_node-result", "returned {r:?} (graph full: {full})"),
                    },
                }
            }
            Op::AddEdge(kind, a, b) => {
                let (a, b) = (pick(*a, n + 2), pick(*b, n + 2));
                let w = m.fresh();
                let endpoints_ok = a < n && b < n;
                let existing = if endpoints_ok { m.find(a, b) } else { None };
                let update = matches!(kind, 2 | 3 | 5);
                let full = e >= lim;
                let (na, nb) = (NodeIndex::<Ix>::new(a.min(lim)), NodeIndex::<Ix>::new(b.min(lim)));
                if a > lim || b > lim {
                    continue;
                }
                // expected outcome
                #[derive(Debug, PartialEq)]
                enum Exp {
                    New,
                    Updated(usize),
                    ErrNode,
                    ErrLimit,
                }
                let exp = if update && existing.is_some() {
                    Exp::Updated(existing.unwrap())
                } else if full {
                    // (with an absent endpoint as well, either error may be reported: order not documented)
                    Exp::ErrLimit
                } else if !endpoints_ok {
                    Exp::ErrNode
                } else {
                    Exp::New
                };
                let res: Result<Result<EdgeIndex<Ix>, Option<GraphError>>, String> = match kind {
                    0 => guarded(|| Ok(g.add_edge(na, nb, w))),
                    1 => guarded(|| g.try_add_edge(na, nb, w).map_err(Some)),
                    2 => guarded(|| Ok(g.update_edge(na, nb, w))),
                    3 => guarded(|| g.try_update_edge(na, nb, w).map_err(Some)),
                    4 => guarded(|| Build::add_edge(&mut g, na, nb, w).ok_or(None)),
                    _ => guarded(|| Ok(Build::update_edge(&mut g, na, nb, w))),
                };
                let fallible = matches!(kind, 1 | 3);
                match (&exp, res) {
                    (Exp::New, Ok(Ok(i))) => {
                        if i.index() != e {
                            bad!("add_edge-index", "returned edge index {}, expected {e}", i.index());
                        }
                        let seq = m.seq();
                        m.edges.push(Some(MEdge { w, src: a, dst: b, seq }));
                    }
                    (Exp::Updated(x), Ok(Ok(i))) => {
                        if !m.joins(i.index(), a, b) {
                            bad!("update_edge-index", "returned edge {} which does not join {a},{b} (model found {x})", i.index());
                        }
                        m.edges[i.index()].as_mut().unwrap().w = w;
                    }
                    (Exp::ErrNode, Ok(Err(Some(GraphError::NodeOutBounds)))) if fallible => st.labels.push("try_* with absent endpoint"),
                    (Exp::ErrLimit, Ok(Err(Some(GraphError::EdgeIxLimit)))) if fallible => st.labels.push("try_add_edge at the index limit"),
                    // when both apply the order of the two error checks is not documented
                    (Exp::ErrLimit, Ok(Err(Some(GraphError::NodeOutBounds)))) if fallible && !endpoints_ok => {}
                    (Exp::ErrNode | Exp::ErrLimit, Err(_)) if !fallible => st.labels.push("panicking add/update with absent endpoint or at the limit"),
                    (_, Err(e)) => return Err(unexpected_panic("add_edge/update_edge", e)),
                    (exp, Ok(r)) => bad!("add_edge-result", "returned {r:?}, expected {exp:?}"),
                }
            }
            Op::RemoveNode(a) => {
                let a = pick(*a, n + 2);
                if a > lim {
                    continue;
                }
                let got = g.remove_node(NodeIndex::new(a));
                let exp = m.swap_remove_node(a);
                if got != exp {
                    bad!("remove_node-result", "returned {got:?}, expected {exp:?}");
                }
                if exp.is_some() {
                    resync(&g, &mut m, "C01", false, &at)?;
                    if a + 1 != n {
                        st.renumbered = true;
                    }
                } else {
                    st.labels.push("remove_node on absent index");
                }
            }
            Op::RemoveEdge(x) => {
                let x = pick(*x, e + 2);
                if x > lim {
                    continue;
                }
                let got = g.remove_edge(EdgeIndex::new(x));
                let exp = m.swap_remove_edge(x).map(|ed| ed.w);
                if got != exp {
                    bad!("remove_edge-result", "returned {got:?}, expected {exp:?}");
                }
                if exp.is_some() && x + 1 != e {
                    st.renumbered = true;
                }
                if exp.is_none() {
                    st.labels.push("remove_edge on absent index");
                }
            }
            Op::RetainNodes(mask, mutate) => {
                let (mask, mutate) = (*mask, *mutate);
                g.retain_nodes(|mut fz, i| {
                    let keep = (mask >> (fz[i][0] % 32)) & 1 == 1;
                    if keep && mutate {
                        fz[i][1] += 1;
                    }
                    keep
                });
                let keep = |w: &W| (mask >> (w[0] % 32)) & 1 == 1;
                let mut removed_any = false;
                // model: remove (order unspecified), then adopt the real numbering
                let kill: Vec<u32> = m.nodes.iter().flatten().filter(|w| !keep(w)).map(|w| w[0]).collect();
                for t in kill {
                    let pos = m.nodes.iter().position(|w| w.map_or(false, |w| w[0] == t)).unwrap();
                    m.swap_remove_node(pos);
                    removed_any = true;
                }
                if mutate {
                    for w in m.nodes.iter_mut().flatten() {
                        w[1] += 1;
                    }
                }
                resync(&g, &mut m, "C01", true, &at)?;
                st.renumbered |= removed_any;
                st.labels.push("retain_nodes");
            }
            Op::RetainEdges(mask, mutate) => {
                let (mask, mutate) = (*mask, *mutate);
                g.retain_edges(|mut fz, i| {
                    let keep = (mask >> (fz[i][0] % 64)) & 1 == 1;
                    if keep && mutate {
                        fz[i][1] += 1;
                    }
                    keep
                });
                let before_len = m.edges.len();
                m.edges.retain(|ed| ed.as_ref().map_or(true, |ed| (mask >> (ed.w[0] % 64)) & 1 == 1));
                if mutate {
                    for ed in m.edges.iter_mut().flatten() {
                        ed.w[1] += 1;
                    }
                }
                resync(&g, &mut m, "C01", false, &at)?;
                st.renumbered |= m.edges.len() != before_len;
                st.labels.push("retain_edges");
            }
            Op::Reverse => {
                g.reverse();
                m.reverse();
                st.labels.push("reverse");
            }
            Op::Clear => {
                g.clear();
                m.nodes.clear();
                m.edges.clear();
            }
            Op::ClearEdges => {
                g.clear_edges();
                m.edges.clear();
            }
            Op::Extend(list) => {
                let mut items: Vec<(u32, u32, W)> = Vec::new();
                let mut cur_n = n;
                let mut cur_e = e;
                for (a, b) in list {
                    let (a, b) = (pick(*a, cur_n + 2), pick(*b, cur_n + 2));
                    let need = a.max(b) + 1;
                    if need > lim || cur_e + 1 > lim || need > 300 {
                        break;
                    }
                    while cur_n < need {
                        m.nodes.push(Some(W::default()));
                        cur_n += 1;
                    }
                    let w = m.fresh();
                    let seq = m.seq();
                    m.edges.push(Some(MEdge { w, src: a, dst: b, seq }));
                    cur_e += 1;
                    items.push((a as u32, b as u32, w));
                }
                if let Err(e) = guarded(|| g.extend_with_edges(items.iter().map(|&(a, b, w)| (NodeIndex::<Ix>::new(a as usize), NodeIndex::<Ix>::new(b as usize), w)))) {
                    return Err(unexpected_panic("extend_with_edges", e));
                }
                // an edge that names index Ix::max() (= NodeIndex::end()) needs one node more than the index
                // type admits: the documented add_node panic, never a node at the reserved index (tried on a copy)
                if lim == 255 {
                    let mut h = g.clone();
                    let r = guarded(|| h.extend_with_edges([(NodeIndex::<Ix>::new(0), NodeIndex::<Ix>::new(lim), W::default())]));
                    if r.is_ok() || h.node_count() > lim {
                        bad!("extend_with_edges-beyond-index-limit", "extend_with_edges with an endpoint at index {lim} = NodeIndex::end() returned normally / left {} nodes (limit {lim})", h.node_count());
                    }
                }
                // nodes created on the way carry N::default(): give them unique tags
                for i in n..cur_n {
                    let w = m.fresh();
                    match g.node_weight_mut(NodeIndex::new(i)) {
                        Some(x) if *x == W::default() => *x = w,
                        other => bad!("extend_with_edges-nodes", "node {i} auto-created by extend_with_edges has weight {:?}", other.map(|x| *x)),
                    }
                    m.nodes[i] = Some(w);
                }
                st.labels.push("extend_with_edges");
            }
            Op::SetNode(a, kind) => {
                let a = pick(*a, n + 2);
                if a > lim {
                    continue;
                }
                let ix = NodeIndex::<Ix>::new(a);
                let present = a < n;
                match kind {
                    0 | 2 => {
                        let r = if *kind == 0 { g.node_weight_mut(ix) } else { DataMapMut::node_weight_mut(&mut g, ix) };
                        match (r, present) {
                            (Some(w), true) => w[1] += 1,
                            (None, false) => mutated = false,
                            (r, _) => bad!("node_weight_mut", "returned {:?}, node present: {present}", r.map(|x| *x)),
                        }
                        if present {
                            m.nodes[a].as_mut().unwrap()[1] += 1;
                        }
                    }
                    1 => {
                        let r = guarded(|| g[ix][1] += 1);
                        match (r, present) {
                            (Ok(()), true) => m.nodes[a].as_mut().unwrap()[1] += 1,
                            (Err(_), false) => mutated = false,
                            (Ok(()), false) => bad!("index-no-panic", "IndexMut on an absent node did not panic"),
                            (Err(e), true) => return Err(unexpected_panic("IndexMut<NodeIndex>", e)),
                        }
                    }
                    _ => {
                        for w in g.node_weights_mut() {
                            w[1] += 2;
                        }
                        for w in m.nodes.iter_mut().flatten() {
                            w[1] += 2;
                        }
                    }
                }
            }
            Op::SetEdge(x, kind) => {
                let x = pick(*x, e + 2);
                if x > lim {
                    continue;
                }
                let ix = EdgeIndex::<Ix>::new(x);
                let present = x < e;
                match kind {
                    0 | 2 => {
                        let r = if *kind == 0 { g.edge_weight_mut(ix) } else { DataMapMut::edge_weight_mut(&mut g, ix) };
                        match (r, present) {
                            (Some(w), true) => w[1] += 1,
                            (None, false) => mutated = false,
                            (r, _) => bad!("edge_weight_mut", "returned {:?}, edge present: {present}", r.map(|x| *x)),
                        }
                        if present {
                            m.edges[x].as_mut().unwrap().w[1] += 1;
                        }
                    }
                    1 => {
                        let r = guarded(|| g[ix][1] += 1);
                        match (r, present) {
                            (Ok(()), true) => m.edges[x].as_mut().unwrap().w[1] += 1,
                            (Err(_), false) => mutated = false,
                            (Ok(()), false) => bad!("index-no-panic", "IndexMut on an absent edge did not panic"),
                            (Err(e), true) => return Err(unexpected_panic("IndexMut<EdgeIndex>", e)),
                        }
                    }
                    _ => {
                        for w in g.edge_weights_mut() {
                            w[1] += 2;
                        }
                        for ed in m.edges.iter_mut().flatten() {
                            ed.w[1] += 2;
                        }
                    }
                }
            }
            Op::IndexTwice(a, b, both_nodes) => {
                let a = pick(*a, n + 2);
                if a > lim {
                    continue;
                }
                if *both_nodes {
                    let b = pick(*b, n + 2);
                    if b > lim {
                        continue;
                    }
                    let ok = a < n && b < n && a != b;
                    let r = guarded(|| {
                        let (x, y) = g.index_twice_mut(NodeIndex::<Ix>::new(a), NodeIndex::<Ix>::new(b));
                        x[1] += 1;
                        y[1] += 3;
                    });
                    match (r, ok) {
                        (Ok(()), true) => {
                            m.nodes[a].as_mut().unwrap()[1] += 1;
                            m.nodes[b].as_mut().unwrap()[1] += 3;
                        }
                        (Err(_), false) => mutated = false,
                        (Ok(()), false) => bad!("index_twice_mut-no-panic", "no panic for nodes {a},{b}"),
                        (Err(e), true) => return Err(unexpected_panic("index_twice_mut", e)),
                    }
                } else {
                    let x = pick(*b, e + 2);
                    if x > lim {
                        continue;
                    }
                    let ok = a < n && x < e;
                    let r = guarded(|| {
                        let (nw, ew) = g.index_twice_mut(NodeIndex::<Ix>::new(a), EdgeIndex::<Ix>::new(x));
                        nw[1] += 1;
                        ew[1] += 3;
                    });
                    match (r, ok) {
                        (Ok(()), true) => {
                            m.nodes[a].as_mut().unwrap()[1] += 1;
                            m.edges[x].as_mut().unwrap().w[1] += 3;
                        }
                        (Err(_), false) => mutated = false,
                        (Ok(()), false) => bad!("index_twice_mut-no-panic", "no panic for node {a}, edge {x}"),
                        (Err(e), true) => return Err(unexpected_panic("index_twice_mut", e)),
                    }
                }
            }
            Op::Map => {
                let g2 = g.map(|i, w| [w[0], w[1] + i.index() as u32 % 2], |_, w| [w[0], w[1] + 1]);
                for (i, w) in m.nodes.iter_mut().enumerate() {
                    if let Some(w) = w {
                        w[1] += i as u32 % 2;
                    }
                }
                for ed in m.edges.iter_mut().flatten() {
                    ed.w[1] += 1;
                }
                // the original is untouched
                observe(&g, &before, "C01", true, n > 24)?;
                g = g2;
                st.labels.push("map");
            }
            Op::FilterMap(nm, em) => {
                let (nm, em) = (*nm, *em);
                let keep_n = |w: &W| (nm >> (w[0] % 32)) & 1 == 1;
                let keep_e = |w: &W| (em >> (w[0] % 64)) & 1 == 1;
                let g2 = g.filter_map(|_, w| if keep_n(w) { Some([w[0], w[1] + 1]) } else { None }, |_, w| if keep_e(w) { Some(*w) } else { None });
                observe(&g, &before, "C01", true, n > 24)?;
                // model: keep in index order (any order is accepted: re-synchronised from the tags)
                let mut newidx = vec![usize::MAX; n];
                let mut nodes = Vec::new();
                for (i, w) in m.nodes.iter().enumerate() {
                    if let Some(w) = w {
                        if keep_n(w) {
                            newidx[i] = nodes.len();
                            nodes.push(Some([w[0], w[1] + 1]));
                        }
                    }
                }
                let mut edges = Vec::new();
                for ed in m.edges.iter().flatten() {
                    if keep_e(&ed.w) && newidx[ed.src] != usize::MAX && newidx[ed.dst] != usize::MAX {
                        edges.push(Some(MEdge { w: ed.w, src: newidx[ed.src], dst: newidx[ed.dst], seq: None }));
                    }
                }
                let no_node_removed = nodes.len() == n;
                let nothing_removed = no_node_removed && edges.len() == e;
                m.nodes = nodes;
                m.edges = edges;
                g = g2;
                let (nid, eid) = resync(&g, &mut m, "C01", true, &at)?;
                if no_node_removed && !nid {
                    bad!("filter_map-node-indices", "no node was removed but node indices changed");
                }
                if nothing_removed && !eid {
                    bad!("filter_map-edge-indices", "nothing was removed but edge indices changed");
                }
                st.labels.push("filter_map");
            }
            Op::CloneReplace(from) => {
                if *from {
                    let mut h: Graph<W, W, Ty, Ix> = Graph::with_capacity(0, 0);
                    let x = h.add_node([0, 0]);
                    h.add_edge(x, x, [0, 0]);
                    h.clone_from(&g);
                    g = h;
                } else {
                    g = g.clone();
                }
                mutated = false;
            }
            Op::EdgeTypeRoundTrip => {
                let other: Graph<W, W, Other, Ix> = g.into_edge_type();
                let mut fm = m.clone();
                fm.directed = !directed;
                fm.forget_order();
                observe(&other, &fm, "C01", true, n > 24)?;
                g = other.into_edge_type();
                st.labels.push("into_edge_type round trip");
                mutated = false;
            }
            Op::StableRoundTrip => {
                let sg: StableGraph<W, W, Ty, Ix> = StableGraph::from(g.clone());
                observe(&sg, &m, "C01", false, n > 24)?;
                g = Graph::from(sg);
                m.forget_order();
                st.labels.push("StableGraph round trip");
                mutated = false;
            }
            Op::FromElementsRoundTrip => {
                let (nodes, edges) = g.clone().into_nodes_edges();
                let els = nodes
                    .into_iter()
                    .map(|nd| Element::Node { weight: nd.weight })
                    .chain(edges.into_iter().map(|ed| Element::Edge { source: ed.source().index(), target: ed.target().index(), weight: ed.weight }));
                g = Graph::from_elements(els);
                m.forget_order();
                st.labels.push("into_nodes_edges + from_elements");
                mutated = false;
            }
            Op::Capacity(kind, amount) => {
                let amount = *amount as usize;
                match kind {
                    0 => g.reserve_nodes(amount),
                    1 => g.reserve_edges(amount),
                    2 => g.reserve_exact_nodes(amount),
                    3 => g.reserve_exact_edges(amount),
                    4 => g.shrink_to_fit_nodes(),
                    5 => g.shrink_to_fit_edges(),
                    6 => g.shrink_to_fit(),
                    _ => {
                        let (cn, ce) = g.capacity();
                        if cn < n || ce < e {
                            bad!("capacity", "capacity() = ({cn},{ce}) below the counts");
                        }
                    }
                }
                mutated = false;
            }
            Op::BulkNodes(k) => {
                for _ in 0..*k {
                    if m.nodes.len() >= lim {
                        break;
                    }
                    let w = m.fresh();
                    let i = g.add_node(w);
                    if i.index() != m.nodes.len() {
                        bad!("add_node-index", "bulk add_node returned {}", i.index());
                    }
                    m.nodes.push(Some(w));
                }
                st.labels.push("bulk nodes");
            }
            Op::BulkEdges(k, s) => {
                if n > 0 {
                    let mut x = *s as usize;
                    for j in 0..*k as usize {
                        if m.edges.len() >= lim {
                            break;
                        }
                        x = x.wrapping_mul(31).wrapping_add(j + 7);
                        let (a, b) = (x % n, (x / 7) % n);
                        let w = m.fresh();
                        let i = g.add_edge(NodeIndex::new(a), NodeIndex::new(b), w);
                        if i.index() != m.edges.len() {
                            bad!("add_edge-index", "bulk add_edge returned {}", i.index());
                        }
                        let seq = m.seq();
                        m.edges.push(Some(MEdge { w, src: a, dst: b, seq }));
                    }
                }
                st.labels.push("bulk edges");
            }
        }
        if m == before {
            // rejected / absent-index / query-only step: nothing observable may have changed
        } else if st.renumbered && mutated {
            st.renumbered_then_mutated = true;
        }
        let big = m.nodes.len() > 24 || m.edges.len() > 60;
        if !big || step % 4 == 3 || step + 1 == c.ops.len() {
            observe(&g, &m, "C01", true, big).map_err(|f| Failure { sig: f.sig, msg: format!("after {at}: {}", f.msg) })?;
        }
        raw_links(&g, &m).map_err(|f| Failure { sig: f.sig, msg: format!("after {at}: {}", f.msg) })?;
    }
    let mut obs = Obs::new(st.renumbered_then_mutated);
    for l in st.labels {
        obs.label(l);
    }
    obs.label_if(m.nodes.len() >= lim || m.edges.len() >= lim, "ended at the index limit");
    obs.label_if(m.edges.iter().flatten().any(|e| e.src == e.dst), "has self-loop");
    Ok(obs)
}

/// raw_nodes / raw_edges / first_edge / next_edge: every edge is on exactly the out-list of its
/// source and the in-list of its target, lists terminate.
fn raw_links<Ty: EdgeType, Ix: IndexType>(g: &Graph<W, W, Ty, Ix>, m: &Model) -> Result<(), Failure> {
    let n = m.nodes.len();
    let e = m.edges.len();
    if g.raw_nodes().len() != n || g.raw_edges().len() != e {
        return fail("C01/raw-lengths", format!("raw_nodes/raw_edges lengths ({}, {}) vs counts ({n}, {e})", g.raw_nodes().len(), g.raw_edges().len()));
    }
    // ExactSizeIterator: len() is exact, also after consuming from both ends
    {
        if g.node_indices().len() != n || g.edge_indices().len() != e || g.node_references().len() != n || g.edge_references().len() != e {
            return fail("C01/exact-size-len", format!("len() of the whole-graph iterators vs counts ({n}, {e})"));
        }
        let mut it = g.edge_references();
        it.next();
        it.next_back();
        if it.len() != e.saturating_sub(2) {
            return fail("C01/exact-size-len", format!("edge_references().len() after next()+next_back() = {}, expected {}", it.len(), e.saturating_sub(2)));
        }
        let nw: Vec<W> = g.node_weights().copied().collect();
        let ew: Vec<W> = g.edge_weights().copied().collect();
        if nw.len() != n || ew.len() != e {
            return fail("C01/weights-iter", "node_weights()/edge_weights() length".to_string());
        }
    }
    for (i, ed) in g.raw_edges().iter().enumerate() {
        let me = m.edges[i].as_ref().unwrap();
        if (ed.source().index(), ed.target().index()) != (me.src, me.dst) || ed.weight != me.w {
            return fail("C01/raw-edge", format!("raw_edges()[{i}] = ({},{}) vs model ({},{})", ed.source().index(), ed.target().index(), me.src, me.dst));
        }
    }
    for d in [Outgoing, Incoming] {
        let mut seen = vec![0u32; e];
        for a in 0..n {
            let mut cur = g.first_edge(NodeIndex::new(a), d);
            if cur.map(|c| c.index()) != { let x = g.raw_nodes()[a].next_edge(d); if x == EdgeIndex::end() { None } else { Some(x.index()) } } {
                return fail("C01/raw-first_edge", format!("first_edge({a},{d:?}) disagrees with raw_nodes()"));
            }
            let mut steps = 0;
            while let Some(x) = cur {
                let xi = x.index();
                if xi >= e {
                    return fail("C01/raw-list-dangling", format!("{d:?} list of node {a} reaches the non-existent edge {xi}"));
                }
                let me = m.edges[xi].as_ref().unwrap();
                let owner = if d == Outgoing { me.src } else { me.dst };
                if owner != a {
                    return fail("C01/raw-list-wrong-owner", format!("edge {xi} ({}->{}) is on the {d:?} list of node {a}", me.src, me.dst));
                }
                seen[xi] += 1;
                steps += 1;
                if steps > e {
                    return fail("C01/raw-list-cycle", format!("{d:?} list of node {a} does not terminate"));
                }
                cur = g.next_edge(x, d);
            }
        }
        if let Some(x) = seen.iter().position(|&c| c != 1) {
            return fail("C01/raw-list-membership", format!("edge {x} appears {} times on the {d:?} lists", seen[x]));
        }
        if g.first_edge(NodeIndex::new(n), d).is_some() {
            return fail("C01/raw-first_edge", "first_edge of an absent node is Some".to_string());
        }
    }
    Ok(())
}

pub fn run(c: &Case) -> Outcome {
    match (c.directed, c.width % 4) {
        (true, 0) => run_ty::<Directed, Undirected, u8>(c),
        (true, 1) => run_ty::<Directed, Undirected, u16>(c),
        (true, 2) => run_ty::<Directed, Undirected, u32>(c),
        (true, _) => run_ty::<Directed, Undirected, usize>(c),
        (false, 0) => run_ty::<Undirected, Directed, u8>(c),
        (false, 1) => run_ty::<Undirected, Directed, u16>(c),
        (false, 2) => run_ty::<Undirected, Directed, u32>(c),
        (false, _) => run_ty::<Undirected, Directed, usize>(c),
    }
}

/// libFuzzer entry: bring a decoded case into the domain of `strategy` / `capacity_strategy`
pub fn fuzz_domain(c: &mut Case) -> bool {
    c.width %= 4;
    let bulk = c.ops.iter().any(|o| matches!(o, Op::BulkNodes(_) | Op::BulkEdges(..)));
    if bulk {
        // bulk fills belong to the u8 capacity class
        c.width = 0;
        c.ops.truncate(40);
    } else {
        c.ops.truncate(160);
    }
    for o in c.ops.iter_mut() {
        match o {
            Op::AddNode(k) => *k %= 3,
            Op::AddEdge(k, ..) => *k %= 6,
            Op::SetNode(_, k) | Op::SetEdge(_, k) => *k %= 4,
            Op::Capacity(k, _) => *k %= 8,
            Op::Extend(v) => v.truncate(4),
            _ => {}
        }
    }
    true
}

/// cases decoded from byte strings (see `engine::decoded_strategy`)
pub fn bytes_strategy(_tier: Tier) -> BoxedStrategy<Case> {
    decoded_strategy(fuzz_domain)
}

const SEL: [u16; 3] = [0, 21846, 43691];
/// history length of the bounded-exhaustive sub-check
fn seq_len(tier: Tier) -> usize {
    if tier == Tier::Quick {
        4
    } else {
        5
    }
}
/// alphabet of the bounded-exhaustive sub-check: node / edge insertion and removal at every position
/// (selectors for the first, middle and last element) and reversal
fn alphabet() -> Vec<Op> {
    let mut a = vec![Op::AddNode(0), Op::Reverse];
    for x in SEL {
        a.push(Op::RemoveNode(x));
        a.push(Op::RemoveEdge(x));
        for y in SEL {
            a.push(Op::AddEdge(0, x, y));
        }
    }
    a
}
fn enum_count(tier: Tier) -> u64 {
    2 * (alphabet().len() as u64).pow(seq_len(tier) as u32)
}
fn enum_make(tier: Tier, i: u64) -> Case {
    let a = alphabet();
    // every history starts from two nodes, so that the first operations have something to work on
    let mut ops = vec![Op::AddNode(0), Op::AddNode(0)];
    ops.extend(crate::util::digits(i / 2, a.len() as u64, seq_len(tier)).into_iter().map(|d| a[d].clone()));
    Case { directed: i % 2 == 0, width: 2, ops }
}

pub fn property() -> Property {
    Property {
        id: "C01",
        rule: "operation histories (<=40 ops quick / <=160 thorough) over Graph<_,_,Directed|Undirected,u8|u16|u32|usize>: add/try_add/update/try_update (valid, self-loop, parallel, absent endpoints), Build trait paths, remove_node/remove_edge (valid and absent), retain_* with mutating closures, reverse, clear*, extend_with_edges, weight writes (get_mut, IndexMut, index_twice_mut, *_weights_mut), map, filter_map (continuing on the result), clone/clone_from, into_edge_type / StableGraph / from_elements round trips, capacity calls, and bulk histories that fill a u8 graph to its 255-element limit; after every step every observable (counts, weights, endpoints, find/contains for all pairs incl. an absent index, neighbour and incident-edge lists in each direction with the documented order, edges_connecting, externals, all whole-graph iterators, detached walkers, raw linked lists) is compared with a reference multigraph; non-trivial = the history contains a renumbering removal followed by a later mutation; distinct by fingerprint of the op sequence; the *-from-bytes sub-checks feed the same interpreter with histories decoded from generated byte strings by the libFuzzer codec (all operation kinds equally likely, up to the thorough-tier length); bounded-exhaustive sub-check: every history of 4 (thorough: 5) operations over a 17-operation alphabet (add node, add edge between / remove node / remove edge at the first, middle and last position, reverse) after two initial nodes, directed and undirected",
        assumptions: &[
            "edge renumbering order inside remove_node / retain_* and the indices produced by filter_map when something is removed are not documented: the model adopts the real numbering via unique tags and then checks everything else",
            "relative order of neighbours that went through filter_map / a conversion is not asserted",
            "u16/u32/usize limits are unreachable; the limit logic is exercised with u8",
        ],
        both_profiles: false,
        subs: vec![
            sub_fuzz("graph/history", 400_000, 4_000_000, strategy, run, fuzz_domain),
            sub_enum("graph/all-short-histories", enum_count, enum_make, run), sub("graph/history-from-bytes", 200_000, 4_000_000, bytes_strategy, run),
            sub("graph/u8-capacity", 12_000, 300_000, capacity_strategy, run),
        ],
    }
}
