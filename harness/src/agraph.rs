//! Abstract graphs: the generated value all algorithm checks start from, the
//! shape-mixing generator, naive graph-theory helpers used by the oracles
//! (deliberately simple: matrices and fixpoints, no shared code with petgraph),
//! and builders into the petgraph storage types.

use crate::util::{perm_from_keys, pick};
use petgraph::csr::Csr;
use petgraph::graph::{Graph, IndexType, NodeIndex};
use petgraph::graphmap::GraphMap;
use petgraph::matrix_graph::MatrixGraph;
use petgraph::stable_graph::StableGraph;
use petgraph::EdgeType;
use proptest::prelude::*;
use serde::{Deserialize, Serialize};

#[derive(Clone, Debug, Serialize, Deserialize, PartialEq)]
pub struct AGraph {
    pub directed: bool,
    pub n: usize,
    /// (source, target, weight) in insertion order
    pub edges: Vec<(usize, usize, i32)>,
}

/// The generated (shrinkable) description an `AGraph` is derived from.
#[derive(Clone, Debug, Serialize, Deserialize)]
pub struct RawGraph {
    pub directed: bool,
    pub shape: u8,
    pub n: u8,
    pub k: u8,
    pub keys: Vec<u16>,
    pub edges: Vec<(u16, u16, u8)>,
}

#[derive(Clone, Copy, Debug)]
pub struct GOpts {
    pub loops: bool,
    pub parallel: bool,
    pub wmin: i32,
    pub wmax: i32,
}

impl GOpts {
    pub const fn new(loops: bool, parallel: bool, wmin: i32, wmax: i32) -> Self {
        GOpts { loops, parallel, wmin, wmax }
    }
}

pub const SHAPES: u8 = 8;

pub fn raw_graph(min_n: u8, max_n: u8, max_m: usize, directed: Option<bool>) -> BoxedStrategy<RawGraph> {
    let dir = match directed {
        Some(d) => Just(d).boxed(),
        None => any::<bool>().boxed(),
    };
    (dir, 0u8..SHAPES, min_n..=max_n, any::<u8>())
        .prop_flat_map(move |(directed, shape, n, k)| {
            (
                proptest::collection::vec(any::<u16>(), n as usize),
                proptest::collection::vec((any::<u16>(), any::<u16>(), any::<u8>()), 0..=max_m),
            )
                .prop_map(move |(keys, edges)| RawGraph { directed, shape, n, k, keys, edges })
        })
        .boxed()
}

impl RawGraph {
    /// Bring a decoded description into the domain of `raw_graph(min_n, max_n, max_m, directed)`
    /// (fuzz entry / from-bytes generators).
    pub fn sanitize(&mut self, min_n: u8, max_n: u8, max_m: usize, directed: Option<bool>) {
        // identity on values that are in the domain already (the seed corpus must decode unchanged)
        if self.n < min_n || self.n > max_n {
            self.n = min_n + self.n % (max_n - min_n + 1);
        }
        self.keys.resize(self.n as usize, 0);
        self.edges.truncate(max_m);
        self.shape %= SHAPES;
        if let Some(d) = directed {
            self.directed = d;
        }
    }

    pub fn weight(&self, w: u8, o: &GOpts) -> i32 {
        o.wmin + (((w as i32) * (o.wmax - o.wmin + 1)) >> 8)
    }

    pub fn build(&self, o: &GOpts) -> AGraph {
        let n = self.n as usize;
        let mut edges: Vec<(usize, usize, i32)> = Vec::new();
        if n > 0 {
            let ge = |e: &(u16, u16, u8)| (pick(e.0, n), pick(e.1, n), self.weight(e.2, o));
            match self.shape % SHAPES {
                0 => edges.extend(self.edges.iter().map(ge)),
                1 => edges.extend(self.edges.iter().take(n).map(ge)),
                2 => {
                    for e in &self.edges {
                        let (u, v, w) = ge(e);
                        if u != v {
                            edges.push((u.min(v), u.max(v), w));
                        }
                    }
                }
                3 => {
                    let k = 1 + (self.k as usize % 4).min(n - 1);
                    for e in &self.edges {
                        let (u, _, w) = ge(e);
                        let b = u * k / n;
                        let start = (b * n + k - 1) / k;
                        let end = (((b + 1) * n + k - 1) / k).min(n);
                        let v = start + pick(e.1, (end - start).max(1));
                        edges.push((u, v.min(n - 1), w));
                    }
                }
                4 => {
                    for i in 0..n {
                        if n > 1 || o.loops {
                            edges.push((i, (i + 1) % n, self.weight((self.keys[i] >> 8) as u8, o)));
                        }
                    }
                    edges.extend(self.edges.iter().take(n / 2 + 1).map(ge));
                }
                5 => {
                    for i in 1..n {
                        let p = pick(self.keys[i], i);
                        let w = self.weight((self.keys[i] & 0xff) as u8, o);
                        if self.keys[i] & 1 == 0 {
                            edges.push((p, i, w));
                        } else {
                            edges.push((i, p, w));
                        }
                    }
                    edges.extend(self.edges.iter().take(1 + (self.k as usize % 4)).map(ge));
                }
                6 => {
                    // dense "DAG" in label order: most pairs i<j present
                    let len = self.edges.len().max(1);
                    let mut idx = 0usize;
                    for i in 0..n {
                        for j in (i + 1)..n {
                            let e = self.edges.get(idx % len).copied().unwrap_or((0, 0, 0));
                            idx += 1;
                            if (e.0 ^ (idx as u16).wrapping_mul(40503)) & 3 != 0 {
                                let w = self.weight(e.2.wrapping_add((e.1 as u8).wrapping_mul(idx as u8)), o);
                                edges.push((i, j, w));
                            }
                        }
                    }
                }
                _ => {
                    // bipartite: every edge crosses the parity classes
                    for e in &self.edges {
                        let (u, mut v, w) = ge(e);
                        if n >= 2 && (u % 2) == (v % 2) {
                            v = if v + 1 < n { v + 1 } else { v - 1 };
                        }
                        edges.push((u, v, w));
                    }
                }
            }
        }
        // relabel, then enforce the options
        let perm = perm_from_keys(&self.keys, n);
        let mut out: Vec<(usize, usize, i32)> = Vec::with_capacity(edges.len());
        for (u, v, w) in edges {
            let (u, v) = (perm[u], perm[v]);
            if u == v && !o.loops {
                continue;
            }
            if !o.parallel {
                let dup = out
                    .iter()
                    .any(|&(a, b, _)| (a == u && b == v) || (!self.directed && a == v && b == u));
                if dup {
                    continue;
                }
            }
            out.push((u, v, w));
        }
        AGraph { directed: self.directed, n, edges: out }
    }
}

pub const INF: i64 = i64::MAX / 4;

impl AGraph {
    pub fn m(&self) -> usize {
        self.edges.len()
    }

    /// Apply a node relabeling (perm[old] = new).
    pub fn relabel(&self, perm: &[usize]) -> AGraph {
        AGraph {
            directed: self.directed,
            n: self.n,
            edges: self.edges.iter().map(|&(u, v, w)| (perm[u], perm[v], w)).collect(),
        }
    }

    /// Out-neighbour lists with edge ids: for undirected graphs each edge is listed from both
    /// endpoints (a self-loop once).
    pub fn out_adj(&self) -> Vec<Vec<(usize, usize)>> {
        let mut a = vec![Vec::new(); self.n];
        for (i, &(u, v, _)) in self.edges.iter().enumerate() {
            a[u].push((v, i));
            if !self.directed && u != v {
                a[v].push((u, i));
            }
        }
        a
    }

    pub fn in_adj(&self) -> Vec<Vec<(usize, usize)>> {
        let mut a = vec![Vec::new(); self.n];
        for (i, &(u, v, _)) in self.edges.iter().enumerate() {
            a[v].push((u, i));
            if !self.directed && u != v {
                a[u].push((v, i));
            }
        }
        a
    }

    /// adjacency matrix: m[u][v] = there is an edge u->v (symmetric if undirected)
    pub fn adj_matrix(&self) -> Vec<Vec<bool>> {
        let mut m = vec![vec![false; self.n]; self.n];
        for &(u, v, _) in &self.edges {
            m[u][v] = true;
            if !self.directed {
                m[v][u] = true;
            }
        }
        m
    }

    /// reach_plus[u][v] = there is a walk with >= 1 edge from u to v (Warshall).
    pub fn reach_plus(&self) -> Vec<Vec<bool>> {
        let mut r = self.adj_matrix();
        let n = self.n;
        for k in 0..n {
            for i in 0..n {
                if r[i][k] {
                    for j in 0..n {
                        if r[k][j] {
                            r[i][j] = true;
                        }
                    }
                }
            }
        }
        r
    }

    /// reflexive closure of `reach_plus`
    pub fn reach(&self) -> Vec<Vec<bool>> {
        let mut r = self.reach_plus();
        for i in 0..self.n {
            r[i][i] = true;
        }
        r
    }

    /// Reachability ignoring direction.
    pub fn weak_reach(&self) -> Vec<Vec<bool>> {
        let und = AGraph { directed: false, n: self.n, edges: self.edges.clone() };
        und.reach()
    }

    /// class id per node for mutual reachability (ids in order of first member)
    pub fn scc_ids(&self) -> (Vec<usize>, usize) {
        let r = self.reach();
        let mut id = vec![usize::MAX; self.n];
        let mut k = 0;
        for i in 0..self.n {
            if id[i] == usize::MAX {
                for j in i..self.n {
                    if r[i][j] && r[j][i] {
                        id[j] = k;
                    }
                }
                k += 1;
            }
        }
        (id, k)
    }

    /// weak component id per node
    pub fn wcc_ids(&self) -> (Vec<usize>, usize) {
        let r = self.weak_reach();
        let mut id = vec![usize::MAX; self.n];
        let mut k = 0;
        for i in 0..self.n {
            if id[i] == usize::MAX {
                for j in i..self.n {
                    if r[i][j] {
                        id[j] = k;
                    }
                }
                k += 1;
            }
        }
        (id, k)
    }

    pub fn has_directed_cycle(&self) -> bool {
        let r = self.reach_plus();
        (0..self.n).any(|i| r[i][i])
    }

    /// hop distance from s (usize::MAX if unreachable)
    pub fn hops_from(&self, s: usize) -> Vec<usize> {
        let adj = self.out_adj();
        let mut d = vec![usize::MAX; self.n];
        d[s] = 0;
        let mut changed = true;
        while changed {
            changed = false;
            for u in 0..self.n {
                if d[u] == usize::MAX {
                    continue;
                }
                for &(v, _) in &adj[u] {
                    if d[v] > d[u] + 1 {
                        d[v] = d[u] + 1;
                        changed = true;
                    }
                }
            }
        }
        d
    }

    /// Shortest distances from s by fixpoint relaxation; INF = unreachable.
    /// Returns None if a negative cycle is reachable from s.
    pub fn dist_from(&self, s: usize) -> Option<Vec<i64>> {
        let mut d = vec![INF; self.n];
        d[s] = 0;
        for round in 0..=self.n {
            let mut changed = false;
            for &(u, v, w) in &self.edges {
                let w = w as i64;
                if d[u] < INF && d[u] + w < d[v] {
                    d[v] = d[u] + w;
                    changed = true;
                }
                if !self.directed && d[v] < INF && d[v] + w < d[u] {
                    d[u] = d[v] + w;
                    changed = true;
                }
            }
            if !changed {
                return Some(d);
            }
            if round == self.n {
                return None;
            }
        }
        Some(d)
    }

    /// cheapest edge weight u->v (either orientation if undirected)
    pub fn min_edge(&self, u: usize, v: usize) -> Option<i32> {
        self.edges
            .iter()
            .filter(|&&(a, b, _)| (a == u && b == v) || (!self.directed && a == v && b == u))
            .map(|e| e.2)
            .min()
    }

    pub fn is_simple(&self) -> bool {
        for (i, &(u, v, _)) in self.edges.iter().enumerate() {
            for &(a, b, _) in &self.edges[..i] {
                if (a == u && b == v) || (!self.directed && a == v && b == u) {
                    return false;
                }
            }
        }
        true
    }

    pub fn has_loop(&self) -> bool {
        self.edges.iter().any(|e| e.0 == e.1)
    }

    pub fn degree(&self, u: usize) -> usize {
        self.edges.iter().filter(|e| e.0 == u || e.1 == u).count()
    }
}

// ---------------------------------------------------------------- builders

/// `Graph` with node weight = label, edges in insertion order: NodeIndex(i) <-> label i.
pub fn to_graph<W, Ty: EdgeType, Ix: IndexType>(g: &AGraph, wf: impl Fn(i32) -> W) -> Graph<usize, W, Ty, Ix> {
    debug_assert_eq!(g.directed, Ty::is_directed());
    let mut out = Graph::with_capacity(0, 0);
    for i in 0..g.n {
        out.add_node(i);
    }
    for &(u, v, w) in &g.edges {
        out.add_edge(NodeIndex::new(u), NodeIndex::new(v), wf(w));
    }
    out
}

/// `StableGraph` holding `g` with node and edge vacancies: decoy nodes and edges are inserted
/// in between (positions derived from `salt`) and then removed.  Returns the label -> index map.
pub fn to_stable_holes<W: Clone, Ty: EdgeType, Ix: IndexType>(
    g: &AGraph,
    salt: u64,
    wf: impl Fn(i32) -> W,
) -> (StableGraph<usize, W, Ty, Ix>, Vec<NodeIndex<Ix>>) {
    let mut out = StableGraph::with_capacity(0, 0);
    let mut map = Vec::with_capacity(g.n);
    let mut decoys = Vec::new();
    let mut s = salt | 1;
    let mut next = || {
        s ^= s << 13;
        s ^= s >> 7;
        s ^= s << 17;
        s
    };
    for i in 0..g.n {
        let r = next() >> 11;
        if r % 3 == 0 {
            decoys.push(out.add_node(usize::MAX));
            if (r / 3) % 2 == 0 {
                // a second decoy with the adjacent id: two neighbouring vacancies below live nodes
                decoys.push(out.add_node(usize::MAX));
            }
        }
        map.push(out.add_node(i));
    }
    if g.n > 0 && next() % 2 == 0 {
        decoys.push(out.add_node(usize::MAX));
    }
    let mut edecoys = Vec::new();
    for &(u, v, w) in &g.edges {
        if next() % 3 == 0 {
            // decoy edge between two real nodes, removed afterwards
            let a = map[(next() % g.n as u64) as usize];
            let b = map[(next() % g.n as u64) as usize];
            edecoys.push(out.add_edge(a, b, wf(w)));
        }
        out.add_edge(map[u], map[v], wf(w));
        if next() % 5 == 0 {
            if let Some(&d) = decoys.first() {
                out.add_edge(map[u], d, wf(w));
            }
        }
    }
    for e in edecoys {
        out.remove_edge(e);
    }
    for d in decoys {
        out.remove_node(d);
    }
    (out, map)
}

/// scrambled key for GraphMap encodings (injective)
pub fn gm_key(label: usize) -> i32 {
    ((label as i32) * 37 + 11) % 101 - 50
}

pub fn gm_label(key: i32) -> usize {
    (0..101).find(|&l| gm_key(l) == key).expect("gm_label")
}

/// `GraphMap` (simple graphs only): keys are scrambled labels.
pub fn to_graphmap<W, Ty: EdgeType>(g: &AGraph, wf: impl Fn(i32) -> W) -> GraphMap<i32, W, Ty> {
    let mut out = GraphMap::new();
    for i in 0..g.n {
        out.add_node(gm_key(i));
    }
    for &(u, v, w) in &g.edges {
        out.add_edge(gm_key(u), gm_key(v), wf(w));
    }
    out
}

/// `MatrixGraph` with reused/vacant ids (simple graphs only).  Returns label -> index map.
pub fn to_matrix_holes<W, Ty: EdgeType>(
    g: &AGraph,
    salt: u64,
    wf: impl Fn(i32) -> W,
) -> (MatrixGraph<usize, W, std::collections::hash_map::RandomState, Ty, Option<W>, u16>, Vec<NodeIndex<u16>>) {
    let mut out: MatrixGraph<usize, W, std::collections::hash_map::RandomState, Ty, Option<W>, u16> = MatrixGraph::default();
    let mut map = Vec::new();
    let mut decoys = Vec::new();
    let mut s = salt | 1;
    let mut next = || {
        s ^= s << 13;
        s ^= s >> 7;
        s ^= s << 17;
        s
    };
    for i in 0..g.n {
        let r = next() >> 11;
        if r % 3 == 0 {
            decoys.push(out.add_node(usize::MAX));
            if (r / 3) % 2 == 0 {
                // a second decoy with the adjacent id: two neighbouring vacancies below live nodes
                decoys.push(out.add_node(usize::MAX));
            }
        }
        map.push(out.add_node(i));
    }
    if g.n > 0 {
        decoys.push(out.add_node(usize::MAX));
        if next() % 2 == 0 {
            decoys.push(out.add_node(usize::MAX));
        }
    }
    // decoy nodes carry edges (a self-loop, and one to a real node) that must vanish with them
    if let Some(&w0) = g.edges.first().map(|e| &e.2) {
        for (k, &d) in decoys.iter().enumerate() {
            if k % 2 == 0 {
                out.add_edge(d, d, wf(w0));
            }
            if !map.is_empty() && k % 3 != 2 {
                out.add_edge(d, map[k % map.len()], wf(w0));
            }
        }
    }
    for &(u, v, w) in &g.edges {
        out.add_edge(map[u], map[v], wf(w));
    }
    // removal order: an inner decoy first, then the trailing ones (exercises the id free list), and one
    // id is reused and freed again
    if decoys.len() >= 2 {
        let inner = decoys.remove(0);
        out.remove_node(inner);
        let again = out.add_node(usize::MAX);
        decoys.push(again);
    }
    for d in decoys.into_iter().rev() {
        out.remove_node(d);
    }
    (out, map)
}

/// `Csr` (no parallel edges): node i <-> label i.
pub fn to_csr<W: Clone, Ty: EdgeType>(g: &AGraph, wf: impl Fn(i32) -> W) -> Csr<usize, W, Ty, u32> {
    let mut out: Csr<usize, W, Ty, u32> = Csr::new();
    for i in 0..g.n {
        out.add_node(i);
    }
    for &(u, v, w) in &g.edges {
        out.add_edge(u as u32, v as u32, wf(w));
    }
    out
}

// ---------------------------------------------------------------- label <-> id views

use crate::engine::Failure;
use std::collections::HashMap;
use std::hash::Hash;

/// Everything the generic checkers need: the expected abstract graph `a` (over labels 0..n),
/// which labels are live (usable as start nodes) and the label <-> NodeId correspondence.
pub struct View<'x, N> {
    pub a: &'x AGraph,
    pub live: Vec<usize>,
    pub ids: Vec<Option<N>>,
    pub labels: HashMap<N, usize>,
}

impl<'x, N: Copy + Eq + Hash + std::fmt::Debug> View<'x, N> {
    pub fn new(a: &'x AGraph, live: Vec<usize>, ids: Vec<Option<N>>) -> Self {
        let mut labels = HashMap::new();
        for (l, i) in ids.iter().enumerate() {
            if let Some(i) = i {
                labels.insert(*i, l);
            }
        }
        View { a, live, ids, labels }
    }
    pub fn id(&self, l: usize) -> N {
        self.ids[l].expect("live label")
    }
    pub fn label(&self, n: N, what: &str) -> Result<usize, Failure> {
        match self.labels.get(&n) {
            Some(&l) => Ok(l),
            None => crate::engine::fail("unknown-node", format!("{what} produced {n:?}, which is not a node of the graph")),
        }
    }
}


impl<'x, N: Copy + Eq + Hash + std::fmt::Debug> View<'x, N> {
    /// all labels live, ids given per label
    pub fn full(a: &'x AGraph, ids: impl IntoIterator<Item = N>) -> Self {
        let ids: Vec<Option<N>> = ids.into_iter().map(Some).collect();
        View::new(a, (0..a.n).collect(), ids)
    }
}

// ------------------------------------------------------------------------------------------------
// enumeration of all small labelled graphs (bounded-exhaustive sub-checks)

/// selector that `pick(sel, n)` maps to `u`
pub fn sel_for(u: usize, n: usize) -> u16 {
    (((u << 16) + n - 1) / n) as u16
}

/// The labelled graph on `n` nodes whose edge set is given by `mask`: directed, bit u*n+v = edge
/// u->v (loops included); undirected, bit k = k-th pair u<=v in row order (loops included).
/// Expressed as a `RawGraph` of shape 0 (so it runs through the ordinary case types); the weight
/// byte of edge k is taken from `wseed`.
pub fn raw_explicit(directed: bool, n: usize, mask: u64, wseed: u8) -> RawGraph {
    let mut edges = Vec::new();
    let mut bit = 0;
    for u in 0..n {
        for v in (if directed { 0 } else { u })..n {
            if (mask >> bit) & 1 == 1 {
                let k = edges.len() as u8;
                edges.push((sel_for(u, n), sel_for(v, n), wseed.wrapping_mul(k.wrapping_add(1)).wrapping_add(k.wrapping_mul(67))));
            }
            bit += 1;
        }
    }
    RawGraph { directed, shape: 0, n: n as u8, k: 0, keys: vec![0; n], edges }
}

/// Segments of the enumeration of all labelled graphs: directed on 1..=dmax nodes, undirected on
/// 1..=umax nodes.  Returns (directed, n, mask) of graph `i`, or None beyond the end.
pub fn small_graph(i: u64, dmax: usize, umax: usize) -> Option<(bool, usize, u64)> {
    let mut i = i;
    for n in 1..=dmax {
        let c = 1u64 << (n * n);
        if i < c {
            return Some((true, n, i));
        }
        i -= c;
    }
    for n in 1..=umax {
        let c = 1u64 << (n * (n + 1) / 2);
        if i < c {
            return Some((false, n, i));
        }
        i -= c;
    }
    None
}

pub fn small_graph_count(dmax: usize, umax: usize) -> u64 {
    (1..=dmax).map(|n| 1u64 << (n * n)).sum::<u64>() + (1..=umax).map(|n| 1u64 << (n * (n + 1) / 2)).sum::<u64>()
}

/// Loop-free labelled digraph on `n` nodes: bit k of `mask` = k-th ordered pair (u, v), u != v, in row order.
pub fn raw_explicit_loopless(n: usize, mask: u64, wseed: u8) -> RawGraph {
    let mut edges = Vec::new();
    let mut bit = 0;
    for u in 0..n {
        for v in 0..n {
            if u == v {
                continue;
            }
            if (mask >> bit) & 1 == 1 {
                let k = edges.len() as u8;
                edges.push((sel_for(u, n), sel_for(v, n), wseed.wrapping_mul(k.wrapping_add(1)).wrapping_add(k.wrapping_mul(67))));
            }
            bit += 1;
        }
    }
    RawGraph { directed: true, shape: 0, n: n as u8, k: 0, keys: vec![0; n], edges }
}

/// Loop-free labelled undirected graph on `n` nodes: bit k of `mask` = k-th pair u<v in row order.
pub fn raw_explicit_und_loopless(n: usize, mask: u64, wseed: u8) -> RawGraph {
    let mut edges = Vec::new();
    let mut bit = 0;
    for u in 0..n {
        for v in (u + 1)..n {
            if (mask >> bit) & 1 == 1 {
                let k = edges.len() as u8;
                edges.push((sel_for(u, n), sel_for(v, n), wseed.wrapping_mul(k.wrapping_add(1)).wrapping_add(k.wrapping_mul(67))));
            }
            bit += 1;
        }
    }
    RawGraph { directed: false, shape: 0, n: n as u8, k: 0, keys: vec![0; n], edges }
}

/// all loop-free labelled undirected graphs on 1..=nmax nodes: (n, mask) of graph `i`
pub fn small_simple_und(i: u64, nmax: usize) -> Option<(usize, u64)> {
    let mut i = i;
    for n in 1..=nmax {
        let c = 1u64 << (n * (n - 1) / 2);
        if i < c {
            return Some((n, i));
        }
        i -= c;
    }
    None
}

pub fn small_simple_und_count(nmax: usize) -> u64 {
    (1..=nmax).map(|n| 1u64 << (n * (n - 1) / 2)).sum()
}

/// Labelled graph with weights from three levels: digit k (base 4) of `code` describes the k-th
/// node pair (row order; ordered pairs incl. loops when directed, pairs u<=v otherwise): 0 = no
/// edge, d = an edge whose weight byte is `levels[d-1]`.  There are 4^(number of pairs) codes.
pub fn raw_quaternary(directed: bool, n: usize, code: u64, levels: [u8; 3]) -> RawGraph {
    let mut edges = Vec::new();
    let mut c = code;
    for u in 0..n {
        for v in (if directed { 0 } else { u })..n {
            let d = (c % 4) as usize;
            c /= 4;
            if d > 0 {
                edges.push((sel_for(u, n), sel_for(v, n), levels[d - 1]));
            }
        }
    }
    RawGraph { directed, shape: 0, n: n as u8, k: 0, keys: vec![0; n], edges }
}

/// number of pairs of `raw_quaternary`
pub fn pair_count(directed: bool, n: usize) -> usize {
    if directed {
        n * n
    } else {
        n * (n + 1) / 2
    }
}

/// all weighted small graphs: directed on 1..=dmax nodes, then undirected on 1..=umax nodes
pub fn small_weighted(i: u64, dmax: usize, umax: usize) -> Option<(bool, usize, u64)> {
    let mut i = i;
    for (dir, max) in [(true, dmax), (false, umax)] {
        for n in 1..=max {
            let c = 1u64 << (2 * pair_count(dir, n));
            if i < c {
                return Some((dir, n, i));
            }
            i -= c;
        }
    }
    None
}

pub fn small_weighted_count(dmax: usize, umax: usize) -> u64 {
    (1..=dmax).map(|n| 1u64 << (2 * pair_count(true, n))).sum::<u64>() + (1..=umax).map(|n| 1u64 << (2 * pair_count(false, n))).sum::<u64>()
}
