#!/usr/bin/env python3
"""Regenerates /verif/MANIFEST.json from the table below (kept in one place so the
manifest is always schema-valid).  Run: python3 tools/gen_manifest.py"""
import json, os, subprocess

V = "/verif"
# id -> (technique, level text, level note, design ref)
CLAIMED = {
 "C19": ("stateful property-based testing (proptest call sequences) against a naive relabel-on-union partition model; thorough tier adds a coverage-guided libFuzzer campaign whose inputs are decoded structurally into operation histories for the same interpreter and model (C01-C04, C14, C19 also enumerate every history of 4-6 operations over a small alphabet)",
         "Generated call histories over UnionFind<u8|u16|u32|usize>, every return value and the full find() vector compared with a reference partition after every call; failures shrink to a minimal call sequence that is saved as a replay file.",
         "Trusted: the 40-line reference partition in harness/src/props/c19.rs; proptest's generators. Exploration only: held on the histories generated, not a proof.",
         "DESIGN.md section 5, C19"),
}
def C(tech, what, trusted, ref):
    return (tech,
            what + " Failures shrink to a minimal case saved as a replay file; pinned reproductions are replayed first on every run.",
            "Trusted: " + trusted + "; proptest's generators; rustc. Exploration only: the property held on every generated case, not a proof; sizes are bounded as stated in the evidence file's rule.",
            ref)

CLAIMED.update({
 "C08": C("property-based testing: generated graphs + visitor control scripts; oracle = naive reachability / hop distances / predecessor fixpoint, an independent event-stream replayer and a reference recursion; bounded-exhaustive enumeration of a small scope and (thorough tier) a coverage-guided libFuzzer campaign on structurally decoded cases use the same oracles",
          "Random multigraphs in 10 storage/adaptor encodings; Dfs/Bfs/DfsPostOrder/Topo outputs and depth_first_search event streams (under Continue/Prune/Break scripts) compared with definitional oracles.",
          "the naive closure/fixpoint helpers in harness/src/agraph.rs and the stream replayer in props/c08.rs", "DESIGN.md section 5, C08"),
 "C09": C("property-based testing: generated graphs; oracle = Warshall closure, mutual-reachability classes, forest edge count, propagation 2-colouring; bounded-exhaustive enumeration of a small scope and (thorough tier) a coverage-guided libFuzzer campaign on structurally decoded cases use the same oracles",
          "Random directed/undirected multigraphs in 8 encodings; kosaraju_scc/tarjan_scc/TarjanScc, connected_components, has_path_connecting, is_cyclic_*, is_bipartite_undirected, toposort (fresh and reused DfsSpace) and condensation compared with brute-force definitions.",
          "the Warshall/closure helpers in harness/src/agraph.rs", "DESIGN.md section 5, C09"),
 "C10": C("property-based testing: generated weighted graphs; oracle = fixpoint distances and a dynamic programme over walks; bounded-exhaustive enumeration of a small scope and (thorough tier) a coverage-guided libFuzzer campaign on structurally decoded cases use the same oracles",
          "Random non-negative weighted multigraphs in 10 encodings x 4 cost types; dijkstra (with and without goal), astar (goal sets; zero / exact / random admissible-inconsistent heuristics) and k_shortest_path compared with independent exact oracles.",
          "the fixpoint relaxation in harness/src/agraph.rs and the k-walk DP in props/c10.rs", "DESIGN.md section 5, C10"),
 "C11": C("property-based testing: generated graphs with negative costs incl. a dense-negative-DAG class; oracle = exact i64 fixpoint Bellman-Ford from every source; a bounded-cost class (i8 over its whole range) with the domain restricted by construction to what bounded arithmetic can represent; bounded-exhaustive enumeration of a small scope and (thorough tier) a coverage-guided libFuzzer campaign on structurally decoded cases use the same oracles",
          "bellman_ford, spfa, floyd_warshall, floyd_warshall_path and find_negative_cycle: verdicts, distances, sentinel values, predecessor trees / prev matrices and returned cycles compared with the exact oracle on 10 encodings and 5 cost types.",
          "the fixpoint relaxation in harness/src/agraph.rs", "DESIGN.md section 5, C11"),
 "C12": C("property-based testing: generated weighted multigraphs; oracle = structural forest predicate + naive Prim optimum cross-checked by exhaustive subset enumeration; graphs of 2..900 nodes against a sort-based Kruskal oracle; bounded-exhaustive enumeration of a small scope and (thorough tier) a coverage-guided libFuzzer campaign on structurally decoded cases use the same oracles",
          "min_spanning_tree element streams (and the graph built from them) and min_spanning_tree_prim on 10 encodings, i32 and exact f64 weights: node order, edge membership, acyclicity, |V|-c edges and minimum total weight.",
          "the naive Prim / subset enumeration in props/c12.rs", "DESIGN.md section 5, C12"),
 "C13": C("property-based testing: generated graph pairs (positive, near-miss, 2-switch, independent) + metamorphic relabeling; oracle = exhaustive enumeration of injective maps under the definition; bounded-exhaustive enumeration of a small scope uses the same oracles",
          "is_isomorphic, is_isomorphic_subgraph, the _matching variants (three predicate kinds) and subgraph_isomorphisms_iter (set equality, no duplicates, termination) on Graph and GraphMap, repeated after relabeling both arguments.",
          "the 40-line backtracking enumerator in props/c13.rs", "DESIGN.md section 5, C13"),
 "C15": C("property-based testing: generated graphs incl. blossom gadgets / flow networks; oracle = validity predicate from mate() + bitmask-DP optimum; capacity/conservation predicate + exhaustive min-cut enumeration; bounded-exhaustive enumeration of a small scope and (thorough tier) a coverage-guided libFuzzer campaign on structurally decoded cases use the same oracles",
          "greedy_matching/maximum_matching on 10 encodings (all Matching accessors cross-checked, size equal to the DP optimum on undirected storage) and ford_fulkerson on Graph and StableGraph with node and edge vacancies (u32 and exact f64 capacities, every s != t).",
          "the bitmask DP and the cut enumeration in props/c15.rs", "DESIGN.md section 5, C15"),
 "C16": C("property-based testing: generated graphs; oracle = vertex-deletion reachability (dominance relation, articulation points) by brute force; bounded-exhaustive enumeration of a small scope and (thorough tier) a coverage-guided libFuzzer campaign on structurally decoded cases use the same oracles",
          "dominators::simple_fast for every root on 6 encodings (all five accessors) and articulation_points on 5 encodings compared with the path-based definitions.",
          "the deletion-reachability helpers in props/c16.rs", "DESIGN.md section 5, C16"),
 "C20": C("property-based testing: seven generated-input sub-checks; oracles = subset enumeration (cliques), validity predicates (colouring, feedback arcs), Warshall closure/reduction, DFS path enumeration, Dreyfus-Wagner optimum + tree predicate (Steiner), algebraic laws and relabeling equivariance (PageRank); bounded-exhaustive enumeration of a small scope uses the same oracles",
          "maximal_cliques, dsatur_coloring, greedy_feedback_arc_set, dag_to_toposorted_adjacency_list + dag_transitive_reduction_closure, all_simple_paths, steiner_tree and page_rank each compared with its defining specification on random graphs of its documented domain, several storage types incl. vacancies.",
          "the brute-force oracles in props/c20.rs", "DESIGN.md section 5, C20"),
 "C01": C("stateful (model-based) property-based testing: generated operation histories, reference multigraph written from the rustdoc, full observation compared after every step; thorough tier adds a coverage-guided libFuzzer campaign whose inputs are decoded structurally into operation histories for the same interpreter and model (C01-C04, C14, C19 also enumerate every history of 4-6 operations over a small alphabet)",
          "Operation histories over Graph for both edge types and four index widths (incl. histories that fill the u8 index space); every public query and iterator, detached walkers and the raw linked lists are compared with a reference multigraph after every operation.",
          "the reference model and observation comparison in harness/src/gmodel.rs and props/c01.rs", "DESIGN.md section 5, C01"),
 "C02": C("stateful (model-based) property-based testing under two build profiles: generated operation histories incl. failing calls, slot model with free index choice, full observation after every step; thorough tier adds a coverage-guided libFuzzer campaign whose inputs are decoded structurally into operation histories for the same interpreter and model (C01-C04, C14, C19 also enumerate every history of 4-6 operations over a small alphabet)",
          "Operation histories over StableGraph (both edge types, four index widths, u8 filled to its limit), run with debug assertions on and off; every query/iterator/walker/bound is compared with a slot model after every operation, failing calls must change nothing, any panic on a valid call is a violation.",
          "the slot model and observation comparison in harness/src/gmodel.rs and props/c02.rs", "DESIGN.md section 5, C02"),
 "C03": C("stateful (model-based) property-based testing: generated operation histories over a small key pool, BTreeSet/BTreeMap reference model, full observation after every step; thorough tier adds a coverage-guided libFuzzer campaign whose inputs are decoded structurally into operation histories for the same interpreter and model (C01-C04, C14, C19 also enumerate every history of 4-6 operations over a small alphabet)",
          "Operation histories over GraphMap for two key types, both edge types and four hashers (incl. an all-colliding one); every query for every pool key/pair, the iterators and the compact index numbering are compared with the model after every operation.",
          "the 30-line reference model in props/c03.rs", "DESIGN.md section 5, C03"),
 "C04": C("stateful (model-based) property-based testing: generated operation histories across capacity steps and id reuse, BTreeMap reference model with free id choice, full observation after every step; thorough tier adds a coverage-guided libFuzzer campaign whose inputs are decoded structurally into operation histories for the same interpreter and model (C01-C04, C14, C19 also enumerate every history of 4-6 operations over a small alphabet)",
          "Operation histories over MatrixGraph in 12 configurations (edge type x null element x index width), crossing the 4/8/16/32/64 matrix growth steps and filling the u8 index space; all queries and iterators compared with a map model after every operation; documented panics must leave the graph unchanged.",
          "the BTreeMap model in props/c04.rs", "DESIGN.md section 5, C04"),
 "C05": C("stateful (model-based) property-based testing: generated insertion histories (Csr rows grown through the 32-entry binary-search cutoff, adj::List with saved edge indices), row-map / Vec<Vec<_>> reference models; differential check of from_sorted_edges against edge-by-edge construction; thorough tier adds a coverage-guided libFuzzer campaign whose inputs are decoded structurally into operation histories for the same interpreter and model (C01-C04, C14, C19 also enumerate every history of 4-6 operations over a small alphabet)",
          "Insertion histories over Csr (both edge types, four index widths) and adj::List (four widths) compared with reference models after every step, plus from_sorted_edges on sorted and perturbed edge lists.",
          "the reference models in props/c05.rs", "DESIGN.md section 5, C05"),
 "C14": C("stateful (model-based) property-based testing: generated operation histories on both inner graph types; reference digraph + Warshall reachability as oracle for acceptance, plus order-bookkeeping invariants after every step; thorough tier adds a coverage-guided libFuzzer campaign whose inputs are decoded structurally into operation histories for the same interpreter and model (C01-C04, C14, C19 also enumerate every history of 4-6 operations over a small alphabet)",
          "Operation histories over Acyclic<DiGraph> and Acyclic<StableDiGraph>: every insertion accepted iff it keeps the graph acyclic (right error kind, is_valid_edge for all pairs), rejected calls change nothing, removals of present and absent nodes keep the order consistent; try_from_graph/TryFrom accept exactly acyclic graphs.",
          "the slot model of gmodel.rs and the Warshall closure in agraph.rs", "DESIGN.md section 5, C14"),
 "C06": C("property-based testing with trait-generic oracles: generated mutated states of all six graph types, ~20 adaptor views each, every visit trait compared with the expected (reversed / symmetrised / induced / restricted) abstract graph",
          "States of Graph (renumbered), StableGraph (vacancies), GraphMap, MatrixGraph (reused ids), Csr and adj::List and their Reversed / UndirectedAdaptor / NodeFiltered / EdgeFiltered / Frozen / reference views up to depth 2 are checked trait by trait (identifiers, references, index maps, neighbours, incident edges with orientation, adjacency matrix, visit maps, DataMap) against the expected abstract graph.",
          "the generic checkers and expected-graph derivations in props/c06.rs", "DESIGN.md section 5, C06"),
 "C07": C("differential / metamorphic property-based testing: one generated abstract graph in up to 12 encodings (types, index widths, insertion orders, vacancies, relabelings); ~30 algorithms; answers translated to labels and compared",
          "Every algorithm and walker is run on every encoding of the same abstract graph that satisfies its trait bounds; canonicalised answers must agree (equal where unique, equally valid/optimal otherwise) and a panic on one encoding while another succeeds is a violation.",
          "the encoders in agraph.rs and the canonicalisation in props/c07.rs; correctness of the common answer is C08-C16/C20's job", "DESIGN.md section 5, C07"),
 "C17": C("property-based testing under two build profiles: round-trip oracle (full C01/C02 observation of the deserialised graph equals the original's) + structured JSON-value mutations and byte-level bincode mutations judged by an accept-or-reject oracle (accepted graphs must pass the full self-consistency observation and a model-checked follow-up script); libFuzzer campaign on the same oracle in the thorough tier",
          "Round trips of Graph / StableGraph (with node and edge vacancies, four index widths, near the u8 limit) / GraphMap through serde_json and bincode, across types and index widths; hostile JSON and bincode input must be rejected or yield a fully consistent graph, never a panic.",
          "the observation machinery of gmodel.rs, serde_json and bincode", "DESIGN.md section 5, C17"),
 "C18": C("property-based testing: differential against an independent graph6 encoder + decode/re-encode round trip on five graph types; Dot output parsed by a hand-written DOT-subset parser and compared statement by statement, labels un-escaped and compared with the formatter's output; bounded-exhaustive enumeration of a small scope uses the same oracles",
          "graph6 strings of simple undirected graphs (0..=70 nodes, around the 62/63 header switch) in five storage types compared with an independent encoder, decoded and re-encoded; Dot output for all Config subsets, four formatting modes and adversarial weight strings (written at once and char by char) parsed and compared with the graph.",
          "the 30-line graph6 encoder and the DOT tokenizer/parser in props/c18.rs", "DESIGN.md section 5, C18"),
})
PLANNED = {}

def main():
    props = [json.loads(l) for l in open(os.path.join(V, "properties.jsonl"))]
    checks, na = [], []
    for p in props:
        pid = p["id"]
        if pid in CLAIMED:
            tech, text, note, ref = CLAIMED[pid]
            checks.append({
                "property_id": pid,
                "quick_cmd": f"./check {pid} quick",
                "thorough_cmd": f"./check {pid} thorough",
                "evidence_file": f"/verif/evidence/{pid}.json",
                "replay_cmd_template": "./check replay {path}",
                "engine": "pgcheck",
                "level_claimed": {"category": "exploration", "text": text, "design_ref": ref},
                "level_note": note,
                "technique": tech,
            })
        else:
            na.append({"property_id": pid, "reason": PLANNED.get(pid, "check not built yet in this round (property-based check designed in DESIGN.md section 5; not claimed until its harness module exists)")})
    hooks_commits = []
    m = {
        "version": 1,
        "setup_cmd": "./check build",
        "hooks": {
            "guard": "petgraph_verif",
            "enable": "none needed: every property is observable through petgraph's public API; the harness links /repo as a path dependency and is rebuilt from its working tree by ./check (RUSTFLAGS unchanged)",
            "baseline_off_cmd": "cd /repo && cargo test --workspace --no-fail-fast --offline",
            "source_commits": hooks_commits,
            "add_only": True,
        },
        "engines": [
            {"name": "pgcheck", "path": "/verif/harness", "serves_properties": sorted(CLAIMED),
             "kind_free_text": "Rust binary: sharded, seeded proptest campaigns (TestRunner, RngSeed::Fixed from VERIF_SEED) over generated operation histories / graphs with reference-model, brute-force, differential and round-trip oracles; bounded-exhaustive enumeration of small scopes; a total structural byte codec that turns libFuzzer inputs (cargo-fuzz targets under /verif/fuzz, thorough tier) and generated byte strings into the same case types; shrinking to replay files; hang handling (exit 2); known-findings protocol (/verif/known_findings.json)"},
        ],
        "checks": checks,
        "notes": "Exit codes: 0 held (KNOWN-FINDING lines possible), 1 VIOLATION, 2 inconclusive. New failing cases are written to /verif/failures/<id>/ (untracked); pinned reproductions live in /verif/regress/<id>/ and are replayed first on every run. known_findings.json is never written at run time.",
    }
    # always present: empty = every listed property is claimed (the technique applies to all twenty)
    m["not_applicable"] = na
    json.dump(m, open(os.path.join(V, "MANIFEST.json"), "w"), indent=1)
    print("claimed:", len(checks), "not claimed:", len(na))

if __name__ == "__main__":
    main()
