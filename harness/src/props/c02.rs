//! C02 — StableGraph keeps every surviving index valid and its bookkeeping exact.

use crate::engine::*;
use crate::gmodel::*;
use crate::util::pick;
use petgraph::data::{Build, DataMapMut};
use petgraph::graph::{EdgeIndex, Graph, GraphError, IndexType, NodeIndex};
use petgraph::stable_graph::StableGraph;
use petgraph::visit::{EdgeIndexable, NodeIndexable};
use petgraph::{Directed, EdgeType, Undirected};
use proptest::prelude::*;
use serde::{Deserialize, Serialize};

#[derive(Debug, Clone, Serialize, Deserialize)]
pub enum Op {
    AddNode(u8),
    AddEdge(u8, u16, u16),
    RemoveNode(u16),
    RemoveEdge(u16),
    RetainNodes(u32, bool),
    RetainEdges(u64, bool),
    Reverse,
    Clear,
    ClearEdges,
    Extend(Vec<(u16, u16)>),
    SetNode(u16, u8),
    SetEdge(u16, u8),
    IndexTwice(u16, u16, bool),
    Map,
    FilterMap(u32, u64),
    CloneReplace(bool),
    GraphRoundTrip,
    Capacity,
    BulkNodes(u8),
    BulkEdges(u8, u16),
    /// remove several nodes / edges in one go (creates >= 2 vacancies quickly)
    Punch(u16, u16),
}

#[derive(Debug, Clone, Serialize, Deserialize)]
pub struct Case {
    pub directed: bool,
    pub width: u8,
    pub ops: Vec<Op>,
}

fn op_strategy() -> impl Strategy<Value = Op> {
    let s = any::<u16>;
    prop_oneof![
        12 => (0u8..3).prop_map(Op::AddNode),
        24 => (0u8..6, s(), s()).prop_map(|(k, a, b)| Op::AddEdge(k, a, b)),
        9 => s().prop_map(Op::RemoveNode),
        9 => s().prop_map(Op::RemoveEdge),
        3 => (s(), s()).prop_map(|(a, b)| Op::Punch(a, b)),
        2 => (any::<u32>(), any::<bool>()).prop_map(|(m, b)| Op::RetainNodes(m, b)),
        2 => (any::<u64>(), any::<bool>()).prop_map(|(m, b)| Op::RetainEdges(m, b)),
        4 => Just(Op::Reverse),
        1 => Just(Op::Clear),
        2 => Just(Op::ClearEdges),
        4 => proptest::collection::vec((s(), s()), 0..4).prop_map(Op::Extend),
        2 => (s(), 0u8..4).prop_map(|(a, k)| Op::SetNode(a, k)),
        2 => (s(), 0u8..4).prop_map(|(a, k)| Op::SetEdge(a, k)),
        2 => (s(), s(), any::<bool>()).prop_map(|(a, b, k)| Op::IndexTwice(a, b, k)),
        2 => Just(Op::Map),
        3 => (any::<u32>(), any::<u64>()).prop_map(|(a, b)| Op::FilterMap(a, b)),
        2 => any::<bool>().prop_map(Op::CloneReplace),
        2 => Just(Op::GraphRoundTrip),
        1 => Just(Op::Capacity),
    ]
}

pub fn strategy(tier: Tier) -> BoxedStrategy<Case> {
    let maxops = if tier == Tier::Quick { 40 } else { 160 };
    (any::<bool>(), 0u8..4, proptest::collection::vec(op_strategy(), 0..=maxops))
        .prop_map(|(directed, width, ops)| Case { directed, width, ops })
        .boxed()
}

pub fn capacity_strategy(tier: Tier) -> BoxedStrategy<Case> {
    let maxops = if tier == Tier::Quick { 14 } else { 40 };
    let bulk = prop_oneof![
        3 => (200u8..=255).prop_map(Op::BulkNodes),
        3 => ((200u8..=255), any::<u16>()).prop_map(|(k, s)| Op::BulkEdges(k, s)),
        1 => (0u8..40).prop_map(Op::BulkNodes),
        1 => ((0u8..60), any::<u16>()).prop_map(|(k, s)| Op::BulkEdges(k, s)),
    ];
    (any::<bool>(), proptest::collection::vec(prop_oneof![2 => bulk, 3 => op_strategy()], 1..=maxops))
        .prop_map(|(directed, ops)| Case { directed, width: 0, ops })
        .boxed()
}

fn limit<Ix: IndexType>() -> usize {
    let m = <Ix as IndexType>::max().index();
    if m == !0 {
        usize::MAX
    } else {
        m
    }
}

fn unexpected_panic(what: &str, e: String) -> Failure {
    Failure { sig: format!("C02/panic-in-{what}"), msg: format!("{what} panicked on a valid call: {e}") }
}

/// stable-graph specific observables on top of the shared observation
fn observe_stable<Ty: EdgeType, Ix: IndexType>(g: &StableGraph<W, W, Ty, Ix>, m: &Model, light: bool) -> Result<(), Failure> {
    observe(g, m, "C02", false, light)?;
    let mx = <Ix as IndexType>::max().index();
    for a in (0..m.nodes.len() + 2).filter(|&a| a <= mx) {
        if g.contains_node(NodeIndex::new(a)) != m.node_live(a) {
            return fail("C02/contains_node", format!("contains_node({a}) = {}", !m.node_live(a)));
        }
    }
    let (nb, eb) = (g.node_bound(), g.edge_bound());
    if nb < m.node_bound() || nb > m.nodes.len() {
        return fail("C02/node_bound", format!("node_bound() = {nb}, last live node index + 1 = {}, indices handed out so far < {}", m.node_bound(), m.nodes.len()));
    }
    if eb < m.edge_bound() || eb > m.edges.len() {
        return fail("C02/edge_bound", format!("edge_bound() = {eb}, last live edge index + 1 = {}, indices handed out so far < {}", m.edge_bound(), m.edges.len()));
    }
    for a in m.live_nodes() {
        if NodeIndexable::to_index(g, NodeIndex::new(a)) != a || NodeIndexable::from_index(g, a).index() != a {
            return fail("C02/node-indexable", format!("to_index/from_index of node {a}"));
        }
    }
    for e in m.live_edges() {
        if EdgeIndexable::to_index(g, EdgeIndex::new(e)) != e || EdgeIndexable::from_index(g, e).index() != e {
            return fail("C02/edge-indexable", format!("to_index/from_index of edge {e}"));
        }
    }
    Ok(())
}

fn place<T: Clone>(v: &mut Vec<Option<T>>, i: usize, x: T) {
    while v.len() <= i {
        v.push(None);
    }
    v[i] = Some(x);
}

fn run_ty<Ty: EdgeType, Ix: IndexType>(c: &Case) -> Outcome {
    let directed = Ty::is_directed();
    let mut g: StableGraph<W, W, Ty, Ix> = StableGraph::with_capacity(0, 0);
    let mut m = Model::new(directed);
    let lim = limit::<Ix>();
    let mut labels: Vec<&'static str> = Vec::new();
    // non-triviality bookkeeping
    let mut special_with_vacancies = false;
    let mut nontrivial = false;
    observe_stable(&g, &m, false)?;

    for (step, op) in c.ops.iter().enumerate() {
        let n = m.nodes.len();
        let e = m.edges.len();
        let at = format!("step {step} {op:?} (node slots={n}, edge slots={e})");
        let before = m.clone();
        let vacancies = (n - m.node_count()).max(e - m.edge_count());
        macro_rules! bad {
            ($sig:expr, $($arg:tt)*) => {
                return Err(Failure { sig: format!("C02/{}", $sig), msg: format!("{}: {}", at, format!($($arg)*)) })
            };
        }
        let mut special = false;
        let mut inserted = false;
        match op {
            Op::AddNode(kind) => {
                let w = m.fresh();
                let full = m.node_count() == n && n >= lim;
                let res: Result<Result<NodeIndex<Ix>, GraphError>, String> = match kind {
                    0 => guarded(|| Ok(g.add_node(w))),
                    1 => guarded(|| g.try_add_node(w)),
                    _ => guarded(|| Ok(Build::add_node(&mut g, w))),
                };
                match (res, full) {
                    (Ok(Ok(i)), false) => {
                        let i = i.index();
                        if m.node_live(i) {
                            bad!("add_node-live-index", "returned index {i}, which is live");
                        }
                        if i > n {
                            bad!("add_node-index-gap", "returned index {i} beyond the next fresh slot {n}");
                        }
                        place(&mut m.nodes, i, w);
                        inserted = true;
                    }
                    (Ok(Err(GraphError::NodeIxLimit)), true) if *kind == 1 => {
                        special = true;
                        labels.push("try_add_node at the index limit");
                    }
                    (Err(_), true) if *kind != 1 => labels.push("add_node at the index limit"),
                    (Err(e), false) => return Err(unexpected_panic("add_node", e)),
                    (r, _) => bad!("add_node-result", "returned {r:?} (graph full: {full})"),
                }
            }
            Op::AddEdge(kind, a, b) => {
                let (a, b) = (pick(*a, n + 2), pick(*b, n + 2));
                if a > lim || b > lim {
                    continue;
                }
                let w = m.fresh();
                let endpoints_ok = m.node_live(a) && m.node_live(b);
                let existing = if endpoints_ok { m.find(a, b) } else { None };
                let update = matches!(kind, 2 | 3 | 5);
                let full = m.edge_count() == e && e >= lim;
                let (na, nb) = (NodeIndex::<Ix>::new(a), NodeIndex::<Ix>::new(b));
                let res: Result<Result<EdgeIndex<Ix>, Option<GraphError>>, String> = match kind {
                    0 => guarded(|| Ok(g.add_edge(na, nb, w))),
                    1 => guarded(|| g.try_add_edge(na, nb, w).map_err(Some)),
                    2 => guarded(|| Ok(g.update_edge(na, nb, w))),
                    3 => guarded(|| g.try_update_edge(na, nb, w).map_err(Some)),
                    4 => guarded(|| Build::add_edge(&mut g, na, nb, w).ok_or(None)),
                    _ => guarded(|| Ok(Build::update_edge(&mut g, na, nb, w))),
                };
                let fallible = matches!(kind, 1 | 3);
                if update && existing.is_some() {
                    match res {
                        Ok(Ok(i)) if m.joins(i.index(), a, b) => m.edges[i.index()].as_mut().unwrap().w = w,
                        Ok(r) => bad!("update_edge-result", "returned {r:?} for an existing edge {a}->{b}"),
                        Err(e) => return Err(unexpected_panic("update_edge", e)),
                    }
                } else if endpoints_ok && !full {
                    match res {
                        Ok(Ok(i)) => {
                            let i = i.index();
                            if m.edge_live(i) {
                                bad!("add_edge-live-index", "returned edge index {i}, which is live");
                            }
                            if i > e {
                                bad!("add_edge-index-gap", "returned edge index {i} beyond the next fresh slot {e}");
                            }
                            let seq = m.seq();
                            place(&mut m.edges, i, MEdge { w, src: a, dst: b, seq });
                            inserted = true;
                        }
                        Ok(r) => bad!("add_edge-result", "returned {r:?} for a valid insertion {a}->{b}"),
                        Err(e) => return Err(unexpected_panic("add_edge", e)),
                    }
                } else {
                    // must fail: Err for try_*, panic for the others; nothing may change
                    match res {
                        Ok(Err(Some(GraphError::NodeMissed(_)))) if fallible && !endpoints_ok => {}
                        Ok(Err(Some(GraphError::EdgeIxLimit))) if fallible && full => {}
                        Ok(Err(None)) | Err(_) if !fallible => {}
                        r => bad!("add_edge-should-fail", "returned {r:?} (endpoints live: {endpoints_ok}, edge index space full: {full})"),
                    }
                    special = fallible;
                    labels.push(if full { "edge insertion at the index limit" } else { "edge insertion with a vacant / out-of-range endpoint" });
                }
            }
            Op::RemoveNode(a) => {
                let a = pick(*a, n + 2);
                if a > lim {
                    continue;
                }
                let got = g.remove_node(NodeIndex::new(a));
                let exp = m.vacate_node(a);
                if got != exp {
                    bad!("remove_node-result", "returned {got:?}, expected {exp:?}");
                }
            }
            Op::RemoveEdge(x) => {
                let x = pick(*x, e + 2);
                if x > lim {
                    continue;
                }
                let got = g.remove_edge(EdgeIndex::new(x));
                let exp = m.vacate_edge(x).map(|ed| ed.w);
                if got != exp {
                    bad!("remove_edge-result", "returned {got:?}, expected {exp:?}");
                }
            }
            Op::Punch(a, b) => {
                for (k, sel) in [*a, *b, a.rotate_left(5)].iter().enumerate() {
                    if k % 2 == 0 {
                        let live = m.live_edges();
                        if !live.is_empty() {
                            let x = live[pick(*sel, live.len())];
                            let got = g.remove_edge(EdgeIndex::new(x));
                            let exp = m.vacate_edge(x).map(|ed| ed.w);
                            if got != exp {
                                bad!("remove_edge-result", "returned {got:?}, expected {exp:?}");
                            }
                        }
                    } else {
                        let live = m.live_nodes();
                        if live.len() > 1 {
                            let x = live[pick(*sel, live.len() - 1)];
                            let got = g.remove_node(NodeIndex::new(x));
                            let exp = m.vacate_node(x);
                            if got != exp {
                                bad!("remove_node-result", "returned {got:?}, expected {exp:?}");
                            }
                        }
                    }
                }
            }
            Op::RetainNodes(mask, mutate) => {
                let (mask, mutate) = (*mask, *mutate);
                let r = guarded(|| {
                    g.retain_nodes(|mut fz, i| {
                        let keep = (mask >> (fz[i][0] % 32)) & 1 == 1;
                        if keep && mutate {
                            fz[i][1] += 1;
                        }
                        keep
                    })
                });
                if let Err(e) = r {
                    return Err(unexpected_panic("retain_nodes", e));
                }
                for a in 0..n {
                    if let Some(w) = m.nodes[a] {
                        if (mask >> (w[0] % 32)) & 1 == 1 {
                            if mutate {
                                m.nodes[a].as_mut().unwrap()[1] += 1;
                            }
                        } else {
                            m.vacate_node(a);
                        }
                    }
                }
                labels.push("retain_nodes");
            }
            Op::RetainEdges(mask, mutate) => {
                let (mask, mutate) = (*mask, *mutate);
                let r = guarded(|| {
                    g.retain_edges(|mut fz, i| {
                        let keep = (mask >> (fz[i][0] % 64)) & 1 == 1;
                        if keep && mutate {
                            fz[i][1] += 1;
                        }
                        keep
                    })
                });
                if let Err(e) = r {
                    return Err(unexpected_panic("retain_edges", e));
                }
                for x in 0..e {
                    if let Some(ed) = m.edges[x].as_mut() {
                        if (mask >> (ed.w[0] % 64)) & 1 == 1 {
                            if mutate {
                                ed.w[1] += 1;
                            }
                        } else {
                            m.edges[x] = None;
                        }
                    }
                }
                labels.push("retain_edges");
            }
            Op::Reverse => {
                g.reverse();
                m.reverse();
                special = true;
                labels.push("reverse");
            }
            Op::Clear => {
                g.clear();
                m.nodes.clear();
                m.edges.clear();
            }
            Op::ClearEdges => {
                g.clear_edges();
                m.edges.clear();
                special = true;
                labels.push("clear_edges");
            }
            Op::Extend(list) => {
                let mut items: Vec<(usize, usize, W)> = Vec::new();
                let mut created: Vec<usize> = Vec::new();
                for (a, b) in list {
                    let cur = m.nodes.len();
                    let (a, b) = (pick(*a, cur + 3), pick(*b, cur + 3));
                    // stay inside the index space: both the node slots and one more edge slot must exist
                    let avail = (e - before.edge_count()) + lim.saturating_sub(e);
                    if a.max(b) >= lim || items.len() >= avail {
                        break;
                    }
                    for x in [a, b] {
                        if !m.node_live(x) {
                            place(&mut m.nodes, x, W::default());
                            created.push(x);
                        }
                    }
                    let w = m.fresh();
                    items.push((a, b, w));
                    // the edge index is adopted below
                    let seq = m.seq();
                    m.edges.push(Some(MEdge { w, src: a, dst: b, seq }));
                }
                // undo the provisional edge placement: indices are whatever the graph hands out
                let provisional: Vec<MEdge> = m.edges.drain(e..).flatten().collect();
                let r = guarded(|| g.extend_with_edges(items.iter().map(|&(a, b, w)| (NodeIndex::<Ix>::new(a), NodeIndex::<Ix>::new(b), w))));
                if let Err(e) = r {
                    return Err(unexpected_panic("extend_with_edges", e));
                }
                // adopt edge indices by tag
                for ed in provisional {
                    let found = (0..g.edge_bound().max(e)).find(|&i| g.edge_weight(EdgeIndex::new(i)).map_or(false, |w| w[0] == ed.w[0]));
                    match found {
                        Some(i) if !m.edge_live(i) => place(&mut m.edges, i, ed),
                        Some(i) => bad!("add_edge-live-index", "extend_with_edges put an edge at the live index {i}"),
                        None => bad!("extend_with_edges-edge-missing", "edge {}->{} was not inserted", ed.src, ed.dst),
                    }
                }
                for x in created {
                    let w = m.fresh();
                    match g.node_weight_mut(NodeIndex::new(x)) {
                        Some(nw) if *nw == W::default() => *nw = w,
                        other => bad!("extend_with_edges-nodes", "node {x} auto-created by extend_with_edges has weight {:?}", other.map(|x| *x)),
                    }
                    m.nodes[x] = Some(w);
                }
                special = !items.is_empty();
                inserted = !items.is_empty();
                labels.push("extend_with_edges");
            }
            Op::SetNode(a, kind) => {
                let a = pick(*a, n + 2);
                if a > lim {
                    continue;
                }
                let ix = NodeIndex::<Ix>::new(a);
                let present = m.node_live(a);
                match kind {
                    0 | 2 => {
                        let r = if *kind == 0 { g.node_weight_mut(ix) } else { DataMapMut::node_weight_mut(&mut g, ix) };
                        match (r, present) {
                            (Some(w), true) => w[1] += 1,
                            (None, false) => {}
                            (r, _) => bad!("node_weight_mut", "returned {:?}, node live: {present}", r.map(|x| *x)),
                        }
                        if present {
                            m.nodes[a].as_mut().unwrap()[1] += 1;
                        }
                    }
                    1 => match (guarded(|| g[ix][1] += 1), present) {
                        (Ok(()), true) => m.nodes[a].as_mut().unwrap()[1] += 1,
                        (Err(_), false) => {}
                        (Ok(()), false) => bad!("index-no-panic", "IndexMut on a vacant node did not panic"),
                        (Err(e), true) => return Err(unexpected_panic("IndexMut<NodeIndex>", e)),
                    },
                    _ => {
                        for w in g.node_weights_mut() {
                            w[1] += 2;
                        }
                        for w in m.nodes.iter_mut().flatten() {
                            w[1] += 2;
                        }
                    }
                }
            }
            Op::SetEdge(x, kind) => {
                let x = pick(*x, e + 2);
                if x > lim {
                    continue;
                }
                let ix = EdgeIndex::<Ix>::new(x);
                let present = m.edge_live(x);
                match kind {
                    0 | 2 => {
                        let r = if *kind == 0 { g.edge_weight_mut(ix) } else { DataMapMut::edge_weight_mut(&mut g, ix) };
                        match (r, present) {
                            (Some(w), true) => w[1] += 1,
                            (None, false) => {}
                            (r, _) => bad!("edge_weight_mut", "returned {:?}, edge live: {present}", r.map(|x| *x)),
                        }
                        if present {
                            m.edges[x].as_mut().unwrap().w[1] += 1;
                        }
                    }
                    1 => match (guarded(|| g[ix][1] += 1), present) {
                        (Ok(()), true) => m.edges[x].as_mut().unwrap().w[1] += 1,
                        (Err(_), false) => {}
                        (Ok(()), false) => bad!("index-no-panic", "IndexMut on a vacant edge did not panic"),
                        (Err(e), true) => return Err(unexpected_panic("IndexMut<EdgeIndex>", e)),
                    },
                    _ => {
                        for w in g.edge_weights_mut() {
                            w[1] += 2;
                        }
                        for ed in m.edges.iter_mut().flatten() {
                            ed.w[1] += 2;
                        }
                    }
                }
            }
            Op::IndexTwice(a, b, both_nodes) => {
                let a = pick(*a, n + 2);
                if a > lim {
                    continue;
                }
                if *both_nodes {
                    let b = pick(*b, n + 2);
                    if b > lim {
                        continue;
                    }
                    let ok = m.node_live(a) && m.node_live(b) && a != b;
                    let r = guarded(|| {
                        let (x, y) = g.index_twice_mut(NodeIndex::<Ix>::new(a), NodeIndex::<Ix>::new(b));
                        x[1] += 1;
                        y[1] += 3;
                    });
                    match (r, ok) {
                        (Ok(()), true) => {
                            m.nodes[a].as_mut().unwrap()[1] += 1;
                            m.nodes[b].as_mut().unwrap()[1] += 3;
                        }
                        (Err(_), false) => {}
                        (Ok(()), false) => bad!("index_twice_mut-no-panic", "no panic for nodes {a},{b}"),
                        (Err(e), true) => return Err(unexpected_panic("index_twice_mut", e)),
                    }
                } else {
                    let x = pick(*b, e + 2);
                    if x > lim {
                        continue;
                    }
                    let ok = m.node_live(a) && m.edge_live(x);
                    let r = guarded(|| {
                        let (nw, ew) = g.index_twice_mut(NodeIndex::<Ix>::new(a), EdgeIndex::<Ix>::new(x));
                        nw[1] += 1;
                        ew[1] += 3;
                    });
                    match (r, ok) {
                        (Ok(()), true) => {
                            m.nodes[a].as_mut().unwrap()[1] += 1;
                            m.edges[x].as_mut().unwrap().w[1] += 3;
                        }
                        (Err(_), false) => {}
                        (Ok(()), false) => bad!("index_twice_mut-no-panic", "no panic for node {a}, edge {x}"),
                        (Err(e), true) => return Err(unexpected_panic("index_twice_mut", e)),
                    }
                }
            }
            Op::Map => {
                let g2 = g.map(|i, w| [w[0], w[1] + i.index() as u32 % 2], |_, w| [w[0], w[1] + 1]);
                for (i, w) in m.nodes.iter_mut().enumerate() {
                    if let Some(w) = w {
                        w[1] += i as u32 % 2;
                    }
                }
                for ed in m.edges.iter_mut().flatten() {
                    ed.w[1] += 1;
                }
                observe_stable(&g, &before, n > 24)?;
                g = g2;
                labels.push("map");
            }
            Op::FilterMap(nm, em) => {
                let (nm, em) = (*nm, *em);
                let keep_n = |w: &W| (nm >> (w[0] % 32)) & 1 == 1;
                let keep_e = |w: &W| (em >> (w[0] % 64)) & 1 == 1;
                let r = guarded(|| g.filter_map(|_, w| if keep_n(w) { Some([w[0], w[1] + 1]) } else { None }, |_, w| if keep_e(w) { Some(*w) } else { None }));
                let g2 = match r {
                    Ok(x) => x,
                    Err(e) => return Err(unexpected_panic("filter_map", e)),
                };
                observe_stable(&g, &before, n > 24)?;
                for a in 0..n {
                    if let Some(w) = m.nodes[a] {
                        if keep_n(&w) {
                            m.nodes[a].as_mut().unwrap()[1] += 1;
                        } else {
                            m.vacate_node(a);
                        }
                    }
                }
                for x in 0..e {
                    if m.edges[x].as_ref().map_or(false, |ed| !keep_e(&ed.w)) {
                        m.edges[x] = None;
                    }
                }
                // the result has no slots beyond the original's bounds
                m.nodes.truncate(before.node_bound());
                m.edges.truncate(before.edge_bound());
                g = g2;
                labels.push("filter_map");
            }
            Op::CloneReplace(from) => {
                if *from {
                    let mut h: StableGraph<W, W, Ty, Ix> = StableGraph::with_capacity(0, 0);
                    let x = h.add_node([0, 0]);
                    let y = h.add_node([0, 0]);
                    h.add_edge(x, y, [0, 0]);
                    h.remove_node(x);
                    h.clone_from(&g);
                    g = h;
                } else {
                    g = g.clone();
                }
            }
            Op::GraphRoundTrip => {
                // Into<Graph> compacts; a Graph converts back with the same indices
                let plain: Graph<W, W, Ty, Ix> = Graph::from(g.clone());
                let mut cm = Model::new(directed);
                cm.next_tag = m.next_tag;
                cm.next_seq = m.next_seq;
                let mut newidx = vec![usize::MAX; n];
                for a in m.live_nodes() {
                    newidx[a] = cm.nodes.len();
                    cm.nodes.push(m.nodes[a]);
                }
                for x in m.live_edges() {
                    let ed = m.edges[x].as_ref().unwrap();
                    cm.edges.push(Some(MEdge { w: ed.w, src: newidx[ed.src], dst: newidx[ed.dst], seq: None }));
                }
                let no_vacancy = m.node_count() == n && m.edge_count() == e;
                let (nid, eid) = resync(&plain, &mut cm, "C02", true, &at)?;
                if no_vacancy && !(nid && eid) {
                    bad!("into-graph-indices", "conversion of a vacancy-free StableGraph into a Graph changed indices");
                }
                observe(&plain, &cm, "C02", false, n > 24)?;
                g = StableGraph::from(plain);
                m = cm;
                labels.push("Graph round trip (compaction)");
            }
            Op::Capacity => {
                let (cn, ce) = g.capacity();
                if cn < m.node_count() || ce < m.edge_count() {
                    bad!("capacity", "capacity() = ({cn},{ce}) below the counts");
                }
            }
            Op::BulkNodes(k) => {
                for _ in 0..*k {
                    if m.node_count() == m.nodes.len() && m.nodes.len() >= lim {
                        break;
                    }
                    let w = m.fresh();
                    let i = g.add_node(w).index();
                    if m.node_live(i) {
                        bad!("add_node-live-index", "bulk add_node returned live index {i}");
                    }
                    place(&mut m.nodes, i, w);
                }
                labels.push("bulk nodes");
            }
            Op::BulkEdges(k, s) => {
                let live = m.live_nodes();
                if !live.is_empty() {
                    let mut x = *s as usize;
                    for j in 0..*k as usize {
                        if m.edge_count() == m.edges.len() && m.edges.len() >= lim {
                            break;
                        }
                        x = x.wrapping_mul(31).wrapping_add(j + 7);
                        let (a, b) = (live[x % live.len()], live[(x / 7) % live.len()]);
                        let w = m.fresh();
                        let i = g.add_edge(NodeIndex::new(a), NodeIndex::new(b), w).index();
                        if m.edge_live(i) {
                            bad!("add_edge-live-index", "bulk add_edge returned live index {i}");
                        }
                        let seq = m.seq();
                        place(&mut m.edges, i, MEdge { w, src: a, dst: b, seq });
                    }
                }
                labels.push("bulk edges");
            }
        }
        if special && vacancies >= 2 {
            special_with_vacancies = true;
        } else if special_with_vacancies && inserted {
            nontrivial = true;
        }
        let big = m.nodes.len() > 24 || m.edges.len() > 60;
        if !big || step % 4 == 3 || step + 1 == c.ops.len() {
            observe_stable(&g, &m, big).map_err(|f| Failure { sig: f.sig, msg: format!("after {at}: {}", f.msg) })?;
        }
    }
    // a few more valid calls at the end: earlier failed calls must not have poisoned the structure
    let tail = guarded(|| {
        let a = g.add_node([u32::MAX, 0]);
        let b = g.try_add_node([u32::MAX - 1, 0]);
        if let Ok(b) = b {
            let _ = g.try_add_edge(a, b, [u32::MAX, 0]);
        }
        g.retain_edges(|_, _| true);
        g.retain_nodes(|_, _| true);
        let _ = g.filter_map(|_, w| Some(*w), |_, w| Some(*w));
    });
    if m.nodes.len() + 2 < lim {
        if let Err(e) = tail {
            return Err(unexpected_panic("final valid calls", e));
        }
    }
    let mut obs = Obs::new(nontrivial);
    for l in labels {
        obs.label(l);
    }
    obs.label_if(special_with_vacancies, "failed try_* / reverse / clear_edges / extend with >= 2 vacancies");
    Ok(obs)
}

pub fn run(c: &Case) -> Outcome {
    match (c.directed, c.width % 4) {
        (true, 0) => run_ty::<Directed, u8>(c),
        (true, 1) => run_ty::<Directed, u16>(c),
        (true, 2) => run_ty::<Directed, u32>(c),
        (true, _) => run_ty::<Directed, usize>(c),
        (false, 0) => run_ty::<Undirected, u8>(c),
        (false, 1) => run_ty::<Undirected, u16>(c),
        (false, 2) => run_ty::<Undirected, u32>(c),
        (false, _) => run_ty::<Undirected, usize>(c),
    }
}

/// libFuzzer entry: bring a decoded case into the domain of `strategy` / `capacity_strategy`
pub fn fuzz_domain(c: &mut Case) -> bool {
    c.width %= 4;
    let bulk = c.ops.iter().any(|o| matches!(o, Op::BulkNodes(_) | Op::BulkEdges(..)));
    if bulk {
        // bulk fills belong to the u8 capacity class
        c.width = 0;
        c.ops.truncate(40);
    } else {
        c.ops.truncate(160);
    }
    for o in c.ops.iter_mut() {
        match o {
            Op::AddNode(k) => *k %= 3,
            Op::AddEdge(k, ..) => *k %= 6,
            Op::SetNode(_, k) | Op::SetEdge(_, k) => *k %= 4,
            Op::Extend(v) => v.truncate(3),
            _ => {}
        }
    }
    true
}

/// cases decoded from byte strings (see `engine::decoded_strategy`)
pub fn bytes_strategy(_tier: Tier) -> BoxedStrategy<Case> {
    decoded_strategy(fuzz_domain)
}

const SEL: [u16; 3] = [0, 21846, 43691];
/// history length of the bounded-exhaustive sub-check
fn seq_len(tier: Tier) -> usize {
    if tier == Tier::Quick {
        4
    } else {
        5
    }
}
/// alphabet of the bounded-exhaustive sub-check (see C01) plus clear_edges
fn alphabet() -> Vec<Op> {
    let mut a = vec![Op::AddNode(0), Op::Reverse, Op::ClearEdges];
    for x in SEL {
        a.push(Op::RemoveNode(x));
        a.push(Op::RemoveEdge(x));
        for y in SEL {
            a.push(Op::AddEdge(0, x, y));
        }
    }
    a
}
fn enum_count(tier: Tier) -> u64 {
    2 * (alphabet().len() as u64).pow(seq_len(tier) as u32)
}
fn enum_make(tier: Tier, i: u64) -> Case {
    let a = alphabet();
    let mut ops = vec![Op::AddNode(0), Op::AddNode(0)];
    ops.extend(crate::util::digits(i / 2, a.len() as u64, seq_len(tier)).into_iter().map(|d| a[d].clone()));
    Case { directed: i % 2 == 0, width: 2, ops }
}

pub fn property() -> Property {
    Property {
        id: "C02",
        rule: "operation histories (<=40 ops quick / <=160 thorough) over StableGraph<_,_,Directed|Undirected,u8|u16|u32|usize>, run under both build profiles (debug assertions on / off): add/try_add/update/try_update (valid, vacant, out-of-range endpoints, at the u8 limit), Build trait paths, remove_node/remove_edge (live, vacant, out of range), bursts of removals, retain_* with mutating closures, reverse, clear, clear_edges, extend_with_edges naming vacant and beyond-bound indices, weight writes, map, filter_map, clone/clone_from, Graph round trips; after every step the complete observation (every query, iterator, walker, contains_node, bounds, index maps) is compared with a slot model in which an insertion may take any non-live index; a failing call must leave the observation unchanged; any panic on a valid call is a violation; non-trivial = a failed try_*, reverse, clear_edges or extend executed while >= 2 vacancies exist, followed by a later insertion; distinct by fingerprint of the op sequence; the *-from-bytes sub-checks feed the same interpreter with histories decoded from generated byte strings by the libFuzzer codec (all operation kinds equally likely, up to the thorough-tier length); bounded-exhaustive sub-check: every history of 4 (thorough: 5) operations over an 18-operation alphabet (add node, add edge between / remove node / remove edge at the first, middle and last position, reverse, clear_edges) after two initial nodes, directed and undirected, both build profiles",
        assumptions: &[
            "node_bound/edge_bound are only documented as upper bounds: asserted to lie between last live index + 1 and the number of indices handed out",
            "neighbour order of a StableGraph is not documented: lists compared as multisets",
        ],
        both_profiles: true,
        subs: vec![
            sub_fuzz("stable/history", 240_000, 3_000_000, strategy, run, fuzz_domain),
            sub_enum("stable/all-short-histories", enum_count, enum_make, run), sub("stable/history-from-bytes", 150_000, 3_000_000, bytes_strategy, run),
            sub("stable/u8-capacity", 8_000, 200_000, capacity_strategy, run),
        ],
    }
}
