#!/bin/sh
# seed_confirm_all.sh <Cxx>: confirm m1..m3 of a property in its scratch worktree (background-safe: does not touch /repo)
ID=$1
for m in m1 m2 m3; do [ -d /tmp/seed/$ID/$m ] && /verif/tools/confirm_seed.sh /tmp/wt/$ID /tmp/seed/$ID/$m; done > /tmp/seed/$ID/confirm.log 2>&1
