//! C15 — greedy_matching / maximum_matching validity and optimality; ford_fulkerson max flow.

use crate::agraph::*;
use crate::engine::*;
use crate::util::pick;
use petgraph::algo::{ford_fulkerson, greedy_matching, maximum_matching, Matching};
use petgraph::graph::{Graph, NodeIndex};
use petgraph::visit::{
    EdgeCount, EdgeIndexable, EdgeRef, IntoEdgeReferences, IntoEdges, IntoEdgesDirected, IntoNeighbors,
    IntoNodeIdentifiers, NodeCount, NodeIndexable, Visitable,
};
use petgraph::{Directed, Undirected};
use proptest::prelude::*;
use serde::{Deserialize, Serialize};
use std::hash::Hash;

#[derive(Debug, Clone, Serialize, Deserialize)]
pub struct MCase {
    pub g: RawGraph,
    pub enc: u8,
    pub salt: u8,
    /// extra blossom gadget: odd cycle length (0 = none) attached by a path
    pub blossom: u8,
}

#[derive(Debug, Clone, Serialize, Deserialize)]
pub struct FCase {
    pub g: RawGraph,
    pub enc: u8,
    pub salt: u8,
    pub s: u16,
    pub t: u16,
    pub float: bool,
    /// u8 capacities from {0,1,127,128,254,255}: max flows at and around the type's maximum
    #[serde(default)]
    pub sat: bool,
}

pub fn m_strategy(tier: Tier) -> BoxedStrategy<MCase> {
    let (maxn, maxm) = if tier == Tier::Quick { (11, 22) } else { (15, 34) };
    (raw_graph(0, maxn, maxm, None), any::<u8>(), any::<u8>(), prop_oneof![2 => Just(0u8), 1 => 0u8..4])
        .prop_map(|(g, enc, salt, blossom)| MCase { g, enc, salt, blossom })
        .boxed()
}

pub fn f_strategy(tier: Tier) -> BoxedStrategy<FCase> {
    let (maxn, maxm) = if tier == Tier::Quick { (8, 24) } else { (11, 36) };
    (raw_graph(2, maxn, maxm, Some(true)), any::<u8>(), any::<u8>(), any::<u16>(), any::<u16>(), any::<bool>(), prop_oneof![4 => Just(false), 1 => Just(true)])
        .prop_map(|(g, enc, salt, s, t, float, sat)| FCase { g, enc, salt, s, t, float, sat })
        .boxed()
}

trait Nid: Copy + Eq + Hash + std::fmt::Debug {}
impl<T: Copy + Eq + Hash + std::fmt::Debug> Nid for T {}

/// maximum matching size by bitmask DP over node subsets (loops ignored, direction ignored)
fn max_matching_size(a: &AGraph) -> usize {
    let n = a.n;
    let mut adj = vec![0u32; n];
    for &(u, v, _) in &a.edges {
        if u != v {
            adj[u] |= 1 << v;
            adj[v] |= 1 << u;
        }
    }
    let mut f = vec![0u8; 1usize << n];
    for mask in 1usize..(1usize << n) {
        let i = mask.trailing_zeros() as usize;
        let rest = mask & !(1 << i);
        let mut best = f[rest];
        let mut cand = adj[i] as usize & rest;
        while cand != 0 {
            let j = cand.trailing_zeros() as usize;
            cand &= cand - 1;
            best = best.max(1 + f[rest & !(1 << j)]);
        }
        f[mask] = best;
    }
    f[(1usize << n) - 1] as usize
}

fn check_matching<G>(_g: G, v: &View<G::NodeId>, m: &Matching<G>, what: &str) -> Result<usize, Failure>
where
    G: Visitable + NodeIndexable + IntoNodeIdentifiers + NodeCount + Copy,
    G::NodeId: Nid,
{
    let a = v.a;
    let n = a.n;
    let mate: Vec<Option<usize>> = (0..n)
        .map(|l| match m.mate(v.id(l)) {
            Some(x) => v.label(x, what).map(Some),
            None => Ok(None),
        })
        .collect::<Result<_, _>>()?;
    let mut pairs = 0;
    for l in 0..n {
        if let Some(p) = mate[l] {
            ensure!(p != l, "C15/matching-self-mate", "{what}: node {l} is matched with itself");
            ensure_eq!(mate[p], Some(l), "C15/matching-not-symmetric", "{what}: mate({l}) = {p} but mate({p})");
            ensure!(
                a.edges.iter().any(|&(x, y, _)| (x == l && y == p) || (x == p && y == l)),
                "C15/matching-non-edge",
                "{what}: matched pair {l}-{p} is not joined by an edge"
            );
            if l < p {
                pairs += 1;
            }
        }
        ensure_eq!(m.contains_node(v.id(l)), mate[l].is_some(), "C15/matching-contains_node", "{what}: contains_node({l})");
    }
    ensure_eq!(m.len(), pairs, "C15/matching-len", "{what}: len()");
    ensure_eq!(m.is_empty(), pairs == 0, "C15/matching-is_empty", "{what}: is_empty()");
    ensure_eq!(m.is_perfect(), mate.iter().all(|x| x.is_some()), "C15/matching-is_perfect", "{what}: is_perfect()");
    // edges(): each matched pair once
    let mut seen = vec![false; n];
    let mut count = 0;
    for (x, y) in m.edges().take(n + 2) {
        let (x, y) = (v.label(x, what)?, v.label(y, what)?);
        ensure_eq!(mate[x], Some(y), "C15/matching-edges-iter", "{what}: edges() yields {x}-{y}");
        ensure!(!seen[x] && !seen[y], "C15/matching-edges-iter-dup", "{what}: edges() yields the pair {x}-{y} twice");
        seen[x] = true;
        seen[y] = true;
        count += 1;
    }
    ensure_eq!(count, pairs, "C15/matching-edges-iter", "{what}: number of pairs from edges()");
    let mut nodes: Vec<usize> = m.nodes().take(n + 2).map(|x| v.label(x, what)).collect::<Result<_, _>>()?;
    nodes.sort();
    let exp: Vec<usize> = (0..n).filter(|&l| mate[l].is_some()).collect();
    ensure_eq!(nodes, exp, "C15/matching-nodes-iter", "{what}: nodes()");
    for x in 0..n {
        for y in 0..n {
            ensure_eq!(m.contains_edge(v.id(x), v.id(y)), mate[x] == Some(y), "C15/matching-contains_edge", "{what}: contains_edge({x},{y})");
        }
    }
    Ok(pairs)
}

fn matchings<G>(g: G, v: &View<G::NodeId>, obs: &mut Obs) -> Result<(), Failure>
where
    G: Visitable + NodeIndexable + IntoNodeIdentifiers + IntoEdges + IntoNeighbors + NodeCount + Copy,
    G::NodeId: Nid,
    G::EdgeId: Eq + Hash,
{
    let a = v.a;
    let gm = greedy_matching(g);
    let gsize = check_matching(g, v, &gm, "greedy_matching")?;
    let opt = max_matching_size(a);
    ensure!(gsize <= opt, "C15/oracle-self-check", "greedy matching larger than the DP optimum");
    if !a.directed {
        let mm = maximum_matching(g);
        let msize = check_matching(g, v, &mm, "maximum_matching")?;
        ensure_eq!(msize, opt, "C15/maximum_matching-not-maximum", "maximum_matching: size vs optimum");
        obs.label_if(gsize < opt, "greedy < maximum");
        // odd cycle present?
        obs.nontrivial = gsize < opt || (opt >= 2 && a.m() > a.n);
    } else {
        // directed storage: only validity is promised (direction ignored when judging adjacency)
        let mm = maximum_matching(g);
        check_matching(g, v, &mm, "maximum_matching (directed storage)")?;
        obs.nontrivial = opt >= 2;
    }
    Ok(())
}

const MOPTS: GOpts = GOpts::new(true, true, 1, 1);

pub fn m_run(c: &MCase) -> Outcome {
    let mut a0 = c.g.build(&MOPTS);
    // blossom gadget: an odd cycle whose stem forces augmentation through it
    if c.blossom > 0 && a0.n >= 1 {
        let len = 3 + 2 * ((c.blossom as usize - 1) % 2);
        let base = a0.n;
        if base + len + 1 <= 15 {
            for i in 0..len {
                a0.edges.push((base + i, base + (i + 1) % len, 1));
            }
            a0.edges.push((base, base + len, 1)); // stem
            a0.edges.push((base + len, 0, 1)); // attach to the rest
            a0.n += len + 1;
        }
    }
    let n = a0.n;
    let mut obs = Obs::default();
    let enc = c.enc % 5;
    let simple = super::c10::simplified_min(&a0);
    let a = if enc >= 2 { &simple } else { &a0 };
    let salt = c.salt as u64 + 1;
    match (enc, a.directed) {
        (0, true) => {
            let g: Graph<usize, i32, Directed, u32> = to_graph(a, |w| w);
            matchings(&g, &View::full(a, (0..n).map(NodeIndex::new)), &mut obs)?;
            obs.label("Graph directed");
        }
        (0, false) => {
            let g: Graph<usize, i32, Undirected, u32> = to_graph(a, |w| w);
            matchings(&g, &View::full(a, (0..n).map(NodeIndex::new)), &mut obs)?;
            obs.label("Graph undirected");
        }
        (1, true) => {
            let (g, map) = to_stable_holes::<i32, Directed, u32>(a, salt, |w| w);
            matchings(&g, &View::full(a, map), &mut obs)?;
            obs.label("StableGraph directed, holes");
        }
        (1, false) => {
            let (g, map) = to_stable_holes::<i32, Undirected, u8>(a, salt, |w| w);
            matchings(&g, &View::full(a, map), &mut obs)?;
            obs.label("StableGraph undirected, holes");
        }
        (2, true) => {
            let g = to_graphmap::<i32, Directed>(a, |w| w);
            matchings(&g, &View::full(a, (0..n).map(gm_key)), &mut obs)?;
            obs.label("GraphMap directed");
        }
        (2, false) => {
            let g = to_graphmap::<i32, Undirected>(a, |w| w);
            matchings(&g, &View::full(a, (0..n).map(gm_key)), &mut obs)?;
            obs.label("GraphMap undirected");
        }
        (3, true) => {
            let g = to_csr::<i32, Directed>(a, |w| w);
            matchings(&g, &View::full(a, (0..n).map(|i| i as u32)), &mut obs)?;
            obs.label("Csr directed");
        }
        (3, false) => {
            let g = to_csr::<i32, Undirected>(a, |w| w);
            matchings(&g, &View::full(a, (0..n).map(|i| i as u32)), &mut obs)?;
            obs.label("Csr undirected");
        }
        (_, true) => {
            let (g, map) = to_matrix_holes::<i32, Directed>(a, salt, |w| w);
            matchings(&g, &View::full(a, map), &mut obs)?;
            obs.label("MatrixGraph directed, holes");
        }
        (_, false) => {
            let (g, map) = to_matrix_holes::<i32, Undirected>(a, salt, |w| w);
            matchings(&g, &View::full(a, map), &mut obs)?;
            obs.label("MatrixGraph undirected, holes");
        }
    }
    obs.label_if(c.blossom > 0, "blossom gadget");
    Ok(obs)
}

// ------------------------------------------------------------------ flow

pub trait Cap: petgraph::algo::PositiveMeasure + std::ops::Sub<Output = Self> + PartialEq + std::fmt::Debug {
    fn of(w: i32) -> Self;
    fn back(self) -> i64;
}
impl Cap for u32 {
    fn of(w: i32) -> Self {
        w as u32
    }
    fn back(self) -> i64 {
        self as i64
    }
}
impl Cap for f64 {
    fn of(w: i32) -> Self {
        w as f64 * 0.25
    }
    fn back(self) -> i64 {
        let x = self * 4.0;
        if x.fract() != 0.0 {
            i64::MIN
        } else {
            x as i64
        }
    }
}
impl Cap for u8 {
    fn of(w: i32) -> Self {
        w as u8
    }
    fn back(self) -> i64 {
        self as i64
    }
}

fn min_cut(a: &AGraph, s: usize, t: usize) -> i64 {
    let n = a.n;
    let others: Vec<usize> = (0..n).filter(|&x| x != s && x != t).collect();
    let mut best = i64::MAX;
    for mask in 0u32..(1u32 << others.len()) {
        let mut in_s = vec![false; n];
        in_s[s] = true;
        for (i, &x) in others.iter().enumerate() {
            if mask >> i & 1 == 1 {
                in_s[x] = true;
            }
        }
        let cap: i64 = a.edges.iter().filter(|&&(u, v, _)| in_s[u] && !in_s[v]).map(|e| e.2 as i64).sum();
        best = best.min(cap);
    }
    best
}

fn flow<G, K>(g: G, v: &View<G::NodeId>, s: usize, t: usize, obs: &mut Obs) -> Result<(), Failure>
where
    G: NodeCount + EdgeCount + IntoEdgesDirected + IntoEdgeReferences + EdgeIndexable + NodeIndexable + petgraph::data::DataMap + Visitable + Copy,
    G: petgraph::visit::Data<EdgeWeight = K>,
    G::NodeId: Nid,
    K: Cap,
    G::EdgeId: std::fmt::Debug,
{
    let a = v.a;
    let n = a.n;
    let (value, flows) = ford_fulkerson(g, v.id(s), v.id(t));
    let mut net = vec![0i64; n];
    let mut count = 0;
    for e in g.edge_references() {
        count += 1;
        let ix = EdgeIndexable::to_index(&g, e.id());
        ensure!(ix < flows.len(), "C15/flow-vector-too-short", "ford_fulkerson {s}->{t}: flows has length {} but edge {:?} has index {ix}", flows.len(), e.id());
        let f = flows[ix].back();
        let cap = e.weight().back();
        ensure!(f != i64::MIN, "C15/flow-not-exact", "flow value not a multiple of the capacity unit");
        ensure!(0 <= f && f <= cap, "C15/flow-capacity", "ford_fulkerson {s}->{t}: edge {:?} carries {f} with capacity {cap}", e.id());
        let (x, y) = (v.label(e.source(), "flow")?, v.label(e.target(), "flow")?);
        net[x] -= f;
        net[y] += f;
    }
    ensure_eq!(count, a.m(), "C15/oracle-self-check", "edge count of the encoding");
    for l in 0..n {
        if l != s && l != t {
            ensure_eq!(net[l], 0, "C15/flow-conservation", "ford_fulkerson {s}->{t}: net flow into node {l}");
        }
    }
    let val = value.back();
    ensure_eq!(-net[s], val, "C15/flow-value-vs-source", "ford_fulkerson {s}->{t}: reported value vs net flow out of the source");
    ensure_eq!(net[t], val, "C15/flow-value-vs-sink", "ford_fulkerson {s}->{t}: reported value vs net flow into the sink");
    let cut = min_cut(a, s, t);
    ensure_eq!(val, cut, "C15/flow-not-maximum", "ford_fulkerson {s}->{t}: value vs minimum cut");
    let src_cap: i64 = a.edges.iter().filter(|e| e.0 == s && e.1 != s).map(|e| e.2 as i64).sum();
    obs.nontrivial = val > 0 && val < src_cap;
    obs.label_if(val > 0, "flow > 0");
    Ok(())
}

const FOPTS: GOpts = GOpts::new(true, true, 0, 9);

pub fn f_run(c: &FCase) -> Outcome {
    let mut a = c.g.build(&FOPTS);
    let n = a.n;
    let mut obs = Obs::default();
    let s = pick(c.s, n);
    let mut t = pick(c.t, n);
    if t == s {
        t = (s + 1) % n;
    }
    if c.sat {
        // u8 capacities around the type's maximum; instances whose max flow does not fit in u8 are out of domain
        for e in a.edges.iter_mut() {
            e.2 = [0, 1, 127, 128, 254, 255, 1, 0, 127, 255][e.2 as usize % 10];
        }
        if min_cut(&a, s, t) > 255 {
            obs.label("u8 instance skipped: max flow exceeds the type");
            return Ok(obs);
        }
        let salt = c.salt as u64 + 1;
        if c.enc % 2 == 0 {
            let g: Graph<usize, u8, Directed, u32> = to_graph(&a, <u8 as Cap>::of);
            flow(&g, &View::full(&a, (0..n).map(NodeIndex::new)), s, t, &mut obs)?;
        } else {
            let (g, map) = to_stable_holes::<u8, Directed, u32>(&a, salt, <u8 as Cap>::of);
            flow(&g, &View::full(&a, map), s, t, &mut obs)?;
        }
        obs.label("u8 capacities near the maximum");
        obs.label_if(min_cut(&a, s, t) == 255, "max flow == u8::MAX");
        return Ok(obs);
    }
    let salt = c.salt as u64 + 1;
    macro_rules! go {
        ($k:ty) => {{
            match c.enc % 3 {
                0 => {
                    let g: Graph<usize, $k, Directed, u32> = to_graph(&a, <$k as Cap>::of);
                    flow(&g, &View::full(&a, (0..n).map(NodeIndex::new)), s, t, &mut obs)?;
                    obs.label("Graph");
                }
                1 => {
                    let (g, map) = to_stable_holes::<$k, Directed, u32>(&a, salt, <$k as Cap>::of);
                    flow(&g, &View::full(&a, map), s, t, &mut obs)?;
                    obs.label("StableGraph, node+edge holes");
                }
                _ => {
                    let (g, map) = to_stable_holes::<$k, Directed, u8>(&a, salt + 17, <$k as Cap>::of);
                    flow(&g, &View::full(&a, map), s, t, &mut obs)?;
                    obs.label("StableGraph u8, node+edge holes");
                }
            }
        }};
    }
    if c.float {
        go!(f64)
    } else {
        go!(u32)
    }
    Ok(obs)
}

/// scope of the bounded-exhaustive sub-check: every labelled digraph on 1..=4 nodes and every
/// labelled undirected graph on 1..=5 nodes (6 in the thorough tier), loops included
fn scope(tier: Tier) -> (usize, usize) {
    if tier == Tier::Quick {
        (4, 5)
    } else {
        (4, 6)
    }
}
fn m_enum_count(tier: Tier) -> u64 {
    small_graph_count(0, scope(tier).1) * 5 + small_simple_und_count(7)
}
fn m_enum_make(tier: Tier, i: u64) -> MCase {
    let first = small_graph_count(0, scope(tier).1) * 5;
    if i < first {
        let (dir, n, mask) = small_graph(i / 5, 0, scope(tier).1).expect("index within the scope");
        MCase { g: raw_explicit(dir, n, mask, 0), enc: (i % 5) as u8, salt: (i % 251) as u8, blossom: 0 }
    } else {
        let (n, mask) = small_simple_und(i - first, 7).expect("index within the scope");
        MCase { g: raw_explicit_und_loopless(n, mask, 0), enc: ((i / 3) % 5) as u8, salt: (i % 251) as u8, blossom: 0 }
    }
}

/// libFuzzer entry / from-bytes generators: bring decoded cases into the domains of the strategies
pub fn m_fuzz_domain(c: &mut MCase) -> bool {
    c.g.sanitize(0, 15, 34, None);
    c.blossom %= 4;
    true
}
pub fn f_fuzz_domain(c: &mut FCase) -> bool {
    c.g.sanitize(2, 11, 36, Some(true));
    true
}
pub fn m_bytes_strategy(_tier: Tier) -> BoxedStrategy<MCase> {
    decoded_strategy(m_fuzz_domain)
}
pub fn f_bytes_strategy(_tier: Tier) -> BoxedStrategy<FCase> {
    decoded_strategy(f_fuzz_domain)
}

pub fn property() -> Property {
    Property {
        id: "C15",
        rule: "matching: random multigraphs with loops (0..=11 nodes quick) plus optional odd-cycle-with-stem gadgets, stored as Graph / StableGraph+MatrixGraph with vacancies / GraphMap / Csr in directed and undirected form; the Matching is validated from mate() alone and all accessors cross-checked; maximum_matching size compared with a bitmask DP (undirected storage); non-trivial = greedy < maximum, or optimum >= 2 with a cycle. flow: random directed multigraphs (2..=8 nodes, capacities 0..=9 as u32 and exact f64, parallel/antiparallel edges, loops) in Graph and StableGraph with node and edge vacancies, every s != t; capacity, conservation, value = net outflow = min over all 2^(n-2) cuts; non-trivial = 0 < value < total source capacity; distinct by case fingerprint; bounded-exhaustive sub-check (matching): every undirected graph with loops on 1..=5 nodes (6 thorough) x 5 encodings and every loop-free graph on 1..=7 nodes",
        assumptions: &["maximality is asserted only on undirected storage (greedy/maximum matching use neighbors(), i.e. outgoing edges, on directed storage; the property says direction is ignored for validity)"],
        both_profiles: false,
        subs: vec![
            sub_fuzz("matching/validity+maximum", 3_000_000, 30_000_000, m_strategy, m_run, m_fuzz_domain), sub("matching/validity+maximum-from-bytes", 600_000, 10_000_000, m_bytes_strategy, m_run),
            sub_enum("matching/all-small-graphs", m_enum_count, m_enum_make, m_run),
            sub_fuzz("flow/ford_fulkerson", 3_000_000, 30_000_000, f_strategy, f_run, f_fuzz_domain), sub("flow/ford_fulkerson-from-bytes", 600_000, 10_000_000, f_bytes_strategy, f_run),
        ],
    }
}
