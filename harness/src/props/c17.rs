//! C17 — serde round trips are exact; hostile input never yields a corrupt graph or a panic.

use crate::agraph::*;
use crate::engine::*;
use crate::gmodel::*;
use crate::util::pick;
use petgraph::graph::{Graph, IndexType, NodeIndex};
use petgraph::graphmap::GraphMap;
use petgraph::stable_graph::StableGraph;
use petgraph::{Directed, EdgeType, Undirected};
use proptest::prelude::*;
use serde::de::DeserializeOwned;
use serde::{Deserialize, Serialize};
use serde_json::{json, Value};

macro_rules! ck {
    ($cond:expr, $sig:expr, $($arg:tt)*) => {
        if !($cond) {
            return Err(Failure { sig: format!("C17/{}", $sig), msg: format!($($arg)*) });
        }
    };
}

/// Read a model off a real graph through its per-index accessors.
fn model_of<G: GLike>(g: &G) -> Model {
    let mut m = Model::new(g.v_is_directed());
    let nb = g.v_node_indices().last().map_or(0, |x| x + 1);
    let eb = g.v_edge_indices().last().map_or(0, |x| x + 1);
    m.nodes = (0..nb).map(|i| g.v_node_weight(i)).collect();
    m.edges = (0..eb)
        .map(|i| match (g.v_edge_weight(i), g.v_edge_endpoints(i)) {
            (Some(w), Some((s, t))) => Some(MEdge { w, src: s, dst: t, seq: None }),
            _ => None,
        })
        .collect();
    m
}

/// A StableGraph with tags, built from an abstract graph, with node and edge vacancies
/// (optionally also trailing ones).
fn stable_with_holes<Ty: EdgeType, Ix: IndexType>(a: &AGraph, salt: u64, trailing: bool) -> StableGraph<W, W, Ty, Ix> {
    let idx = AGraph { directed: a.directed, n: a.n, edges: a.edges.iter().enumerate().map(|(i, &(x, y, _))| (x, y, i as i32)).collect() };
    let (g0, map) = to_stable_holes::<i32, Ty, Ix>(&idx, salt, |w| w);
    // re-tag the weights
    let mut g = g0.map(|i, _| [1000 + i.index() as u32, 7], |e, w| [2000 + e.index() as u32, *w as u32]);
    if trailing && a.n > 0 {
        let x = g.add_node([9, 9]);
        let e = g.add_edge(map[0], x, [9, 9]);
        let y = g.add_node([9, 9]);
        g.remove_edge(e);
        g.remove_node(y);
        g.remove_node(x);
    }
    g
}

// ------------------------------------------------------------------ round trips

#[derive(Debug, Clone, Serialize, Deserialize)]
pub struct RCase {
    pub g: RawGraph,
    pub salt: u8,
    pub trailing: bool,
    /// 0 u8, 1 u16, 2 u32, 3 usize
    pub width: u8,
    /// fill a u8 graph up to this many nodes (0 = no)
    pub fill: u8,
}

pub fn r_strategy(tier: Tier) -> BoxedStrategy<RCase> {
    let (n, m) = if tier == Tier::Quick { (9, 20) } else { (16, 50) };
    (raw_graph(0, n, m, None), any::<u8>(), any::<bool>(), 0u8..4, prop_oneof![6 => Just(0u8), 1 => 250u8..=254])
        .prop_map(|(g, salt, trailing, width, fill)| RCase { g, salt, trailing, width, fill })
        .boxed()
}

fn via<T: Serialize + DeserializeOwned>(x: &T, what: &str) -> Result<(T, T), Failure> {
    let js = serde_json::to_string(x).map_err(|e| Failure { sig: "C17/serialize-fails".into(), msg: format!("{what}: to_string: {e}") })?;
    let a: T = match guarded(|| serde_json::from_str::<T>(&js)) {
        Ok(Ok(v)) => v,
        Ok(Err(e)) => return fail("C17/roundtrip-json-rejected", format!("{what}: serde_json rejects the library's own output: {e}; stream {js}")),
        Err(p) => return fail("C17/roundtrip-json-panics", format!("{what}: deserializing the library's own JSON panicked: {p}")),
    };
    let bytes = bincode::serialize(x).map_err(|e| Failure { sig: "C17/serialize-fails".into(), msg: format!("{what}: bincode: {e}") })?;
    let b: T = match guarded(|| bincode::deserialize::<T>(&bytes)) {
        Ok(Ok(v)) => v,
        Ok(Err(e)) => return fail("C17/roundtrip-bincode-rejected", format!("{what}: bincode rejects the library's own output: {e}")),
        Err(p) => return fail("C17/roundtrip-bincode-panics", format!("{what}: deserializing the library's own bincode stream panicked: {p}")),
    };
    Ok((a, b))
}

fn cross<A: Serialize, B: DeserializeOwned>(x: &A, what: &str) -> Result<(B, B), Failure> {
    let js = serde_json::to_string(x).unwrap();
    let a: B = match guarded(|| serde_json::from_str::<B>(&js)) {
        Ok(Ok(v)) => v,
        Ok(Err(e)) => return fail("C17/cross-json-rejected", format!("{what}: {e}; stream {js}")),
        Err(p) => return fail("C17/cross-json-panics", format!("{what}: panicked: {p}")),
    };
    let bytes = bincode::serialize(x).unwrap();
    let b: B = match guarded(|| bincode::deserialize::<B>(&bytes)) {
        Ok(Ok(v)) => v,
        Ok(Err(e)) => return fail("C17/cross-bincode-rejected", format!("{what}: {e}")),
        Err(p) => return fail("C17/cross-bincode-panics", format!("{what}: panicked: {p}")),
    };
    Ok((a, b))
}

fn same<G: GLike>(g: &G, m: &Model, what: &str) -> Result<(), Failure> {
    observe(g, m, "C17", false, m.nodes.len() > 24).map_err(|f| Failure { sig: f.sig, msg: format!("{what}: {}", f.msg) })
}

fn roundtrip_ty<Ty: EdgeType, Ix: IndexType + Serialize + DeserializeOwned>(c: &RCase, a: &AGraph, obs: &mut Obs) -> Result<(), Failure> {
    let salt = c.salt as u64 + 1;
    // StableGraph with vacancies -> same type
    let mut sg: StableGraph<W, W, Ty, Ix> = stable_with_holes(a, salt, c.trailing);
    let lim = <Ix as IndexType>::max().index();
    if c.fill > 0 && lim == 255 {
        while sg.node_count() < c.fill as usize && sg.node_indices().last().map_or(0, |x| x.index() + 1) < c.fill as usize {
            sg.add_node([5, 5]);
        }
        obs.label("u8 graph near the index limit");
    }
    let m = model_of(&sg);
    same(&sg, &m, "oracle self-check (original StableGraph)")?;
    let (j, b) = via(&sg, "StableGraph -> StableGraph")?;
    same(&j, &m, "StableGraph round trip through JSON")?;
    same(&b, &m, "StableGraph round trip through bincode")?;
    // the deserialised graphs stay consistent under further use (free lists rebuilt): follow-up script
    accepted_stable(j.clone(), "StableGraph after a JSON round trip")?;
    accepted_stable(b.clone(), "StableGraph after a bincode round trip")?;
    let mut j2 = j.clone();
    let x = j2.add_node([1, 1]);
    ck!(!m.node_live(x.index()), "roundtrip-reuses-live-index", "add_node after a JSON round trip returned the live index {}", x.index());
    let vacancies = (m.nodes.len() - m.node_count() >= 1) && (m.edges.len() - m.edge_count() >= 1);
    obs.nontrivial = vacancies;
    obs.label_if(vacancies, "node and edge vacancies");
    // compacted Graph and back
    let plain: Graph<W, W, Ty, Ix> = Graph::from(sg.clone());
    let pm = model_of(&plain);
    let (j, b) = via(&plain, "Graph -> Graph")?;
    same(&j, &pm, "Graph round trip through JSON")?;
    same(&b, &pm, "Graph round trip through bincode")?;
    // any Graph stream loads as a StableGraph with the same indices
    let (j, b): (StableGraph<W, W, Ty, Ix>, StableGraph<W, W, Ty, Ix>) = cross(&plain, "Graph stream -> StableGraph")?;
    same(&j, &pm, "Graph stream read as StableGraph (JSON)")?;
    same(&b, &pm, "Graph stream read as StableGraph (bincode)")?;
    // a vacancy-free StableGraph stream loads as a Graph with the same indices
    let full: StableGraph<W, W, Ty, Ix> = StableGraph::from(plain.clone());
    let (j, b): (Graph<W, W, Ty, Ix>, Graph<W, W, Ty, Ix>) = cross(&full, "vacancy-free StableGraph stream -> Graph")?;
    same(&j, &pm, "vacancy-free StableGraph stream read as Graph (JSON)")?;
    same(&b, &pm, "vacancy-free StableGraph stream read as Graph (bincode)")?;
    // ... also when earlier removals left vacant slots beyond its bounds (count == bound still holds)
    if plain.node_count() + 3 < lim && plain.edge_count() + 3 < lim {
        let mut full2: StableGraph<W, W, Ty, Ix> = StableGraph::from(plain.clone());
        let x = full2.add_node([9, 9]);
        let y = full2.add_node([9, 9]);
        let e1 = full2.add_edge(x, y, [9, 9]);
        let e2 = full2.add_edge(full2.node_indices().next().unwrap(), x, [9, 9]);
        let e3 = full2.add_edge(y, y, [9, 9]);
        if c.salt % 2 == 0 {
            full2.remove_edge(e3);
            full2.remove_edge(e1);
            full2.remove_edge(e2);
        }
        full2.remove_node(y);
        full2.remove_node(x);
        let (j, b): (Graph<W, W, Ty, Ix>, Graph<W, W, Ty, Ix>) = cross(&full2, "StableGraph without vacancies below its bounds (slots beyond them were used and freed) -> Graph")?;
        same(&j, &pm, "StableGraph with freed trailing slots read as Graph (JSON)")?;
        same(&b, &pm, "StableGraph with freed trailing slots read as Graph (bincode)")?;
        let (j, b) = via(&full2, "StableGraph with freed trailing slots -> StableGraph")?;
        same(&j, &pm, "StableGraph with freed trailing slots, JSON round trip")?;
        same(&b, &pm, "StableGraph with freed trailing slots, bincode round trip")?;
        obs.label("freed trailing slots");
    }
    // wider index type (JSON is self-describing)
    let js = serde_json::to_string(&sg).unwrap();
    match guarded(|| serde_json::from_str::<StableGraph<W, W, Ty, usize>>(&js)) {
        Ok(Ok(wide)) => same(&wide, &m, "StableGraph stream read with usize indices")?,
        Ok(Err(e)) => return fail("C17/cross-json-rejected", format!("reading with a wider index type: {e}")),
        Err(p) => return fail("C17/cross-json-panics", format!("reading with a wider index type panicked: {p}")),
    }
    Ok(())
}

pub fn r_run(c: &RCase) -> Outcome {
    let a = c.g.build(&GOpts::new(true, true, 1, 9));
    let mut obs = Obs::default();
    match (a.directed, c.width % 4) {
        (true, 0) => roundtrip_ty::<Directed, u8>(c, &a, &mut obs)?,
        (true, 1) => roundtrip_ty::<Directed, u16>(c, &a, &mut obs)?,
        (true, 2) => roundtrip_ty::<Directed, u32>(c, &a, &mut obs)?,
        (true, _) => roundtrip_ty::<Directed, usize>(c, &a, &mut obs)?,
        (false, 0) => roundtrip_ty::<Undirected, u8>(c, &a, &mut obs)?,
        (false, 1) => roundtrip_ty::<Undirected, u16>(c, &a, &mut obs)?,
        (false, 2) => roundtrip_ty::<Undirected, u32>(c, &a, &mut obs)?,
        (false, _) => roundtrip_ty::<Undirected, usize>(c, &a, &mut obs)?,
    }
    // other weight types (String / unit / tuple with a float) on Graph
    {
        let g: Graph<String, (i8, f32), Directed, u32> = {
            let mut g = Graph::new();
            for i in 0..a.n {
                g.add_node(format!("n\"{i}\\\n"));
            }
            for &(x, y, w) in &a.edges {
                g.add_edge(NodeIndex::new(x), NodeIndex::new(y), (w as i8, w as f32 * 0.5));
            }
            g
        };
        let (j, b) = via(&g, "Graph<String,(i8,f32)>")?;
        for r in [&j, &b] {
            ck!(r.node_count() == g.node_count() && r.edge_count() == g.edge_count(), "roundtrip-weights", "counts after the round trip");
            ck!(r.node_weights().eq(g.node_weights()) && r.edge_weights().eq(g.edge_weights()), "roundtrip-weights", "String / (i8,f32) weights changed in the round trip");
            ck!(r.edge_indices().all(|e| r.edge_endpoints(e) == g.edge_endpoints(e)), "roundtrip-weights", "endpoints changed in the round trip");
        }
        let u: StableGraph<(), (), Undirected, u16> = {
            let mut u = StableGraph::default();
            let ids: Vec<_> = (0..a.n).map(|_| u.add_node(())).collect();
            for &(x, y, _) in &a.edges {
                u.add_edge(ids[x], ids[y], ());
            }
            if a.n > 1 {
                u.remove_node(ids[0]);
            }
            u
        };
        let (j, b) = via(&u, "StableGraph<(),()>")?;
        for r in [&j, &b] {
            ck!(r.node_indices().eq(u.node_indices()) && r.edge_indices().eq(u.edge_indices()), "roundtrip-unit-weights", "indices of a unit-weight StableGraph changed");
            ck!(r.edge_indices().all(|e| r.edge_endpoints(e) == u.edge_endpoints(e)), "roundtrip-unit-weights", "endpoints changed");
        }
    }
    // GraphMap (simple graphs, isolated nodes included)
    {
        let s = super::c10::simplified_min(&a);
        macro_rules! gm {
            ($ty:ty) => {{
                let g: GraphMap<i32, i32, $ty> = to_graphmap(&s, |w| w);
                let (j, b) = via(&g, "GraphMap")?;
                for r in [&j, &b] {
                    // iteration order = the compact node / edge numbering: part of what is observable
                    let n1: Vec<i32> = r.nodes().collect();
                    let n0: Vec<i32> = g.nodes().collect();
                    ck!(n1 == n0, "graphmap-roundtrip-nodes", "GraphMap nodes (in iteration order) after the round trip: {n1:?} vs {n0:?}");
                    let e1: Vec<(i32, i32, i32)> = r.all_edges().map(|(x, y, w)| (x, y, *w)).collect();
                    let e0: Vec<(i32, i32, i32)> = g.all_edges().map(|(x, y, w)| (x, y, *w)).collect();
                    ck!(e1 == e0, "graphmap-roundtrip-edges", "GraphMap edges (in iteration order) after the round trip: {e1:?} vs {e0:?}");
                    ck!(serde_json::to_string(r).unwrap() == serde_json::to_string(&g).unwrap(), "graphmap-roundtrip-restream", "serializing the round-tripped GraphMap gives a different stream");
                    if let Err(e) = graphmap_consistent(r) {
                        return fail("C17/accepted-graphmap-inconsistent", format!("GraphMap after a round trip: {e}"));
                    }
                    for x in g.nodes() {
                        let mut a1: Vec<i32> = r.neighbors(x).collect();
                        let mut a0: Vec<i32> = g.neighbors(x).collect();
                        a1.sort();
                        a0.sort();
                        ck!(a1 == a0, "graphmap-roundtrip-neighbors", "GraphMap neighbors({x}) after the round trip");
                    }
                }
                // a GraphMap stream is a Graph stream
                let (jg, _): (Graph<i32, i32, $ty, u32>, Graph<i32, i32, $ty, u32>) = cross(&g, "GraphMap stream -> Graph")?;
                ck!(jg.node_count() == g.node_count() && jg.edge_count() == g.edge_count(), "graphmap-as-graph", "GraphMap stream read as Graph: counts");
            }};
        }
        if s.directed {
            gm!(Directed)
        } else {
            gm!(Undirected)
        }
        // a Graph stream with parallel edges and repeated node weights read as a GraphMap: whatever
        // from_graph makes of it, the result is a consistent GraphMap over the distinct weights
        macro_rules! multi {
            ($ty:ty) => {{
                let mut g: Graph<i32, i32, $ty, u32> = Graph::default();
                for i in 0..a.n {
                    g.add_node(if c.salt % 3 == 0 { (i / 2) as i32 } else { i as i32 });
                }
                for &(x, y, w) in &a.edges {
                    g.add_edge(NodeIndex::new(x), NodeIndex::new(y), w);
                }
                let js = serde_json::to_string(&g).unwrap();
                match guarded(|| serde_json::from_str::<GraphMap<i32, i32, $ty>>(&js).map_err(|e| e.to_string())) {
                    Err(p) => return fail("C17/deserialize-panics", format!("Graph stream {js} read as GraphMap panicked: {p}")),
                    Ok(Err(_)) => obs.label("multigraph stream rejected by GraphMap"),
                    Ok(Ok(m)) => {
                        if let Err(e) = guarded(|| graphmap_consistent(&m)).unwrap_or_else(|p| Err(format!("panicked: {p}"))) {
                            return fail("C17/accepted-graphmap-inconsistent", format!("Graph stream {js} read as GraphMap: {e}"));
                        }
                        let mut want: Vec<i32> = g.node_weights().copied().collect();
                        want.sort();
                        want.dedup();
                        let mut got: Vec<i32> = m.nodes().collect();
                        got.sort();
                        ck!(got == want, "graph-as-graphmap-nodes", "Graph stream {js} read as GraphMap: nodes {got:?}, distinct weights {want:?}");
                        for e in g.edge_indices() {
                            let (x, y) = g.edge_endpoints(e).unwrap();
                            ck!(m.contains_edge(g[x], g[y]), "graph-as-graphmap-edges", "Graph stream {js} read as GraphMap: edge {}-{} missing", g[x], g[y]);
                        }
                        for (x, y, w) in m.all_edges() {
                            let ok = g.edge_indices().any(|e| {
                                let (p, q) = g.edge_endpoints(e).unwrap();
                                g[e] == *w && ((g[p] == x && g[q] == y) || (!<$ty as EdgeType>::is_directed() && g[p] == y && g[q] == x))
                            });
                            ck!(ok, "graph-as-graphmap-edges", "Graph stream {js} read as GraphMap: edge {x}-{y} weight {w} is not an edge of the graph");
                        }
                        obs.label("multigraph stream read as GraphMap");
                    }
                }
            }};
        }
        if a.directed {
            multi!(Directed)
        } else {
            multi!(Undirected)
        }
    }
    Ok(obs)
}

/// exactly the maximum number of elements (255 for u8): legal graph, must round-trip
#[derive(Debug, Clone, Serialize, Deserialize)]
pub struct LCase {
    pub stable: bool,
    pub nodes: u8,
    pub edges: u8,
}

pub fn l_strategy(_tier: Tier) -> BoxedStrategy<LCase> {
    (any::<bool>(), 253u8..=255, 253u8..=255).prop_map(|(stable, nodes, edges)| LCase { stable, nodes, edges }).boxed()
}

pub fn l_run(c: &LCase) -> Outcome {
    let mut g: Graph<W, W, Directed, u8> = Graph::default();
    for i in 0..c.nodes as u32 {
        g.add_node([i, 0]);
    }
    for i in 0..c.edges as usize {
        g.add_edge(NodeIndex::new(i % c.nodes as usize), NodeIndex::new((i * 7 + 1) % c.nodes as usize), [i as u32, 1]);
    }
    let m = model_of(&g);
    let at_limit = c.nodes == 255 || c.edges == 255;
    let r = if c.stable {
        let s: StableGraph<W, W, Directed, u8> = StableGraph::from(g);
        via(&s, "full u8 StableGraph").and_then(|(j, b)| {
            same(&j, &m, "full u8 StableGraph (JSON)")?;
            same(&b, &m, "full u8 StableGraph (bincode)")
        })
    } else {
        via(&g, "full u8 Graph").and_then(|(j, b)| {
            same(&j, &m, "full u8 Graph (JSON)")?;
            same(&b, &m, "full u8 Graph (bincode)")
        })
    };
    let mut obs = Obs::new(true);
    match r {
        Ok(()) => {}
        Err(f) if at_limit && (f.sig == "C17/roundtrip-json-rejected" || f.sig == "C17/roundtrip-bincode-rejected") => {
            // the known off-by-one in the length check: a graph holding exactly Ix::MAX elements
            obs.deferred.push(Failure { sig: "C17/roundtrip-rejected-at-exactly-index-max-elements".into(), msg: format!("a u8 graph with {} nodes and {} edges serialises but is rejected when read back: {}", c.nodes, c.edges, f.msg) });
        }
        Err(f) => return Err(f),
    }
    obs.label_if(at_limit, "exactly 255 nodes or edges");
    Ok(obs)
}

// ------------------------------------------------------------------ hostile input

#[derive(Debug, Clone, Serialize, Deserialize)]
pub enum Mut {
    DropField(u8),
    HolesSet(Vec<u16>),
    HolesPush(u16),
    EdgeEndpoint(u16, bool, u16),
    EdgeNull(u16),
    FlipProperty(u8),
    GrowNodes(u16),
    GrowEdges(u16),
    WrongType(u8, u8),
    DupEdge(u16),
    TruncateNodes(u16),
}

#[derive(Debug, Clone, Serialize, Deserialize)]
pub struct HCase {
    pub g: RawGraph,
    pub salt: u8,
    pub trailing: bool,
    pub muts: Vec<Mut>,
    /// read as: 0 StableGraph<u8>, 1 Graph<u8>, 2 StableGraph<u32>, 3 Graph<u16>
    pub target: u8,
}

fn mut_strategy() -> impl Strategy<Value = Mut> {
    let s = any::<u16>;
    prop_oneof![
        1 => (0u8..4).prop_map(Mut::DropField),
        3 => proptest::collection::vec(s(), 0..5).prop_map(Mut::HolesSet),
        3 => s().prop_map(Mut::HolesPush),
        5 => (s(), any::<bool>(), s()).prop_map(|(e, t, v)| Mut::EdgeEndpoint(e, t, v)),
        2 => s().prop_map(Mut::EdgeNull),
        1 => (0u8..3).prop_map(Mut::FlipProperty),
        1 => s().prop_map(Mut::GrowNodes),
        1 => s().prop_map(Mut::GrowEdges),
        1 => (0u8..4, 0u8..4).prop_map(|(a, b)| Mut::WrongType(a, b)),
        1 => s().prop_map(Mut::DupEdge),
        1 => s().prop_map(Mut::TruncateNodes),
    ]
}

pub fn h_strategy(tier: Tier) -> BoxedStrategy<HCase> {
    let (n, m) = if tier == Tier::Quick { (8, 14) } else { (14, 30) };
    (raw_graph(0, n, m, Some(true)), any::<u8>(), any::<bool>(), proptest::collection::vec(mut_strategy(), 1..4), 0u8..5)
        .prop_map(|(g, salt, trailing, muts, target)| HCase { g, salt, trailing, muts, target: if target == 4 { 6 } else { target } })
        .boxed()
}

const FIELDS: [&str; 4] = ["nodes", "node_holes", "edge_property", "edges"];

fn apply_mut(v: &mut Value, m: &Mut) {
    let nodes_len = v["nodes"].as_array().map_or(0, |a| a.len());
    let holes_len = v["node_holes"].as_array().map_or(0, |a| a.len());
    let total = nodes_len + holes_len;
    let edges_len = v["edges"].as_array().map_or(0, |a| a.len());
    match m {
        Mut::DropField(f) => {
            v.as_object_mut().unwrap().remove(FIELDS[*f as usize % 4]);
        }
        Mut::HolesSet(hs) => {
            v["node_holes"] = Value::Array(hs.iter().map(|h| json!(pick(*h, total + 3))).collect());
        }
        Mut::HolesPush(h) => {
            if let Some(a) = v["node_holes"].as_array_mut() {
                a.push(json!(pick(*h, total + 3)));
            }
        }
        Mut::EdgeEndpoint(e, tgt, val) => {
            if edges_len > 0 {
                let e = pick(*e, edges_len);
                // values: a node index, a hole, just out of range, or the index type's maximum
                let choices: Vec<u64> = (0..total as u64 + 2).chain([254, 255, 256, 65535, u32::MAX as u64]).collect();
                let x = choices[pick(*val, choices.len())];
                if let Some(slot) = v["edges"][e].as_array_mut().and_then(|arr| arr.get_mut(*tgt as usize)) {
                    *slot = json!(x);
                }
            }
        }
        Mut::EdgeNull(e) => {
            if edges_len > 0 {
                v["edges"][pick(*e, edges_len)] = Value::Null;
            }
        }
        Mut::FlipProperty(k) => {
            v["edge_property"] = match k {
                0 => json!("undirected"),
                1 => json!("Directed"),
                _ => json!(1),
            };
        }
        Mut::GrowNodes(k) => {
            if let Some(a) = v["nodes"].as_array_mut() {
                let want = [254usize, 255, 256, 300][*k as usize % 4];
                while a.len() < want {
                    a.push(json!([1, 1]));
                }
            }
        }
        Mut::GrowEdges(k) => {
            if total > 0 {
                if let Some(a) = v["edges"].as_array_mut() {
                    let want = [254usize, 255, 256, 300][*k as usize % 4];
                    while a.len() < want {
                        a.push(json!([0, 0, [1, 1]]));
                    }
                }
            }
        }
        Mut::WrongType(f, k) => {
            v[FIELDS[*f as usize % 4]] = match k {
                0 => json!(null),
                1 => json!("x"),
                2 => json!({}),
                _ => json!([[]]),
            };
        }
        Mut::DupEdge(e) => {
            if edges_len > 0 {
                let x = v["edges"][pick(*e, edges_len)].clone();
                v["edges"].as_array_mut().unwrap().push(x);
            }
        }
        Mut::TruncateNodes(k) => {
            if let Some(a) = v["nodes"].as_array_mut() {
                let keep = pick(*k, a.len() + 1);
                a.truncate(keep);
            }
        }
    }
}

/// An accepted graph must be fully self-consistent and survive further use.
fn accepted_stable<Ty: EdgeType, Ix: IndexType>(mut g: StableGraph<W, W, Ty, Ix>, what: &str) -> Result<(), Failure> {
    let r = guarded(|| -> Result<(), Failure> {
        let mut m = model_of(&g);
        same(&g, &m, what)?;
        // endpoints of every edge are live nodes
        for ed in m.edges.iter().flatten() {
            ck!(m.node_live(ed.src) && m.node_live(ed.dst), "accepted-edge-to-vacant-node", "{what}: accepted graph has an edge {}->{} with a vacant/out-of-range endpoint", ed.src, ed.dst);
        }
        let lim = <Ix as IndexType>::max().index();
        // follow-up script
        for k in 0..3u32 {
            if m.nodes.len() + 1 >= lim && m.node_count() == m.nodes.len() {
                break;
            }
            let w = [77, k];
            let i = g.add_node(w).index();
            ck!(!m.node_live(i), "accepted-graph-reuses-live-node", "{what}: add_node on the accepted graph returned the live index {i}");
            while m.nodes.len() <= i {
                m.nodes.push(None);
            }
            m.nodes[i] = Some(w);
            same(&g, &m, &format!("{what}, after add_node #{k}"))?;
        }
        let live = m.live_nodes();
        if let (Some(&first), Some(&last)) = (live.first(), live.last()) {
            // several insertions: the rebuilt edge free list is walked further than its head
            for (k, (a, b)) in [(first, last), (last, first), (first, first)].into_iter().enumerate() {
                if m.edges.len() + 1 >= lim && m.edge_count() == m.edges.len() {
                    break;
                }
                let w = [88, k as u32];
                let e = g.add_edge(NodeIndex::new(a), NodeIndex::new(b), w).index();
                ck!(!m.edge_live(e), "accepted-graph-reuses-live-edge", "{what}: add_edge #{k} on the accepted graph returned the live index {e}");
                while m.edges.len() <= e {
                    m.edges.push(None);
                }
                m.edges[e] = Some(MEdge { w, src: a, dst: b, seq: None });
                same(&g, &m, &format!("{what}, after add_edge #{k}"))?;
            }
        }
        for a in m.live_nodes() {
            let got = g.remove_node(NodeIndex::new(a));
            let exp = m.vacate_node(a);
            ck!(got == exp, "accepted-graph-remove_node", "{what}: remove_node({a}) returned {got:?}, expected {exp:?}");
            same(&g, &m, &format!("{what}, after remove_node({a})"))?;
        }
        g.retain_nodes(|_, _| true);
        Ok(())
    });
    match r {
        Ok(x) => x,
        Err(p) => fail("C17/accepted-graph-panics-under-use", format!("{what}: using the accepted graph panicked: {p}")),
    }
}

fn accepted_graph<Ty: EdgeType, Ix: IndexType>(mut g: Graph<W, W, Ty, Ix>, what: &str) -> Result<(), Failure> {
    let r = guarded(|| -> Result<(), Failure> {
        let m0 = model_of(&g);
        ck!(m0.node_count() == m0.nodes.len() && m0.edge_count() == m0.edges.len(), "accepted-graph-not-compact", "{what}: accepted Graph is not compact");
        same(&g, &m0, what)?;
        // the stream may have carried duplicate weights: give every element a unique tag for the follow-up script
        for (i, w) in g.node_weights_mut().enumerate() {
            *w = [500_000 + i as u32, 0];
        }
        for (i, w) in g.edge_weights_mut().enumerate() {
            *w = [600_000 + i as u32, 0];
        }
        let mut m = model_of(&g);
        same(&g, &m, what)?;
        let lim = <Ix as IndexType>::max().index();
        if m.nodes.len() + 1 < lim {
            let i = g.add_node([77, 0]).index();
            ck!(i == m.nodes.len(), "accepted-graph-add_node", "{what}: add_node returned {i}");
            m.nodes.push(Some([77, 0]));
            same(&g, &m, &format!("{what}, after add_node"))?;
        }
        while let Some(a) = m.live_nodes().first().copied() {
            let got = g.remove_node(NodeIndex::new(a));
            let exp = m.swap_remove_node(a);
            ck!(got == exp, "accepted-graph-remove_node", "{what}: remove_node({a}) returned {got:?}");
            resync(&g, &mut m, "C17", false, what)?;
            same(&g, &m, &format!("{what}, after remove_node"))?;
        }
        Ok(())
    });
    match r {
        Ok(x) => x,
        Err(p) => fail("C17/accepted-graph-panics-under-use", format!("{what}: using the accepted graph panicked: {p}")),
    }
}

fn judge_stable<Ty: EdgeType, Ix: IndexType + DeserializeOwned>(res: Result<Result<StableGraph<W, W, Ty, Ix>, String>, String>, what: &str, obs: &mut Obs) -> Result<(), Failure> {
    match res {
        Err(p) => fail("C17/deserialize-panics", format!("{what}: deserializing panicked: {p}")),
        Ok(Err(_)) => {
            obs.label("rejected");
            Ok(())
        }
        Ok(Ok(g)) => {
            obs.label("accepted");
            obs.nontrivial = true;
            accepted_stable(g, what)
        }
    }
}

fn judge_graph<Ty: EdgeType, Ix: IndexType + DeserializeOwned>(res: Result<Result<Graph<W, W, Ty, Ix>, String>, String>, what: &str, obs: &mut Obs) -> Result<(), Failure> {
    match res {
        Err(p) => fail("C17/deserialize-panics", format!("{what}: deserializing panicked: {p}")),
        Ok(Err(_)) => {
            obs.label("rejected");
            Ok(())
        }
        Ok(Ok(g)) => {
            obs.label("accepted");
            obs.nontrivial = true;
            accepted_graph(g, what)
        }
    }
}

pub fn h_run(c: &HCase) -> Outcome {
    let a = c.g.build(&GOpts::new(true, true, 1, 9));
    let sg: StableGraph<W, W, Directed, u32> = stable_with_holes(&a, c.salt as u64 + 1, c.trailing);
    let mut v: Value = serde_json::to_value(&sg).unwrap();
    for m in &c.muts {
        apply_mut(&mut v, m);
    }
    let text = v.to_string();
    let mut obs = Obs::default();
    judge_json(&text, c.target, &mut obs)?;
    Ok(obs)
}

/// Shared with the libFuzzer target: read `text` as JSON into one of six graph types and judge the outcome.
pub fn judge_json(text: &str, target: u8, obs: &mut Obs) -> Result<(), Failure> {
    let what = format!("JSON input {}", &text[..text.len().min(600)]);
    macro_rules! js {
        ($t:ty) => {
            guarded(|| serde_json::from_str::<$t>(text).map_err(|e| e.to_string()))
        };
    }
    match target % 8 {
        0 => judge_stable(js!(StableGraph<W, W, Directed, u8>), &what, obs),
        1 => judge_graph(js!(Graph<W, W, Directed, u8>), &what, obs),
        2 => judge_stable(js!(StableGraph<W, W, Directed, u32>), &what, obs),
        3 => judge_graph(js!(Graph<W, W, Directed, u16>), &what, obs),
        4 => judge_stable(js!(StableGraph<W, W, Undirected, u16>), &what, obs),
        5 => judge_graph(js!(Graph<W, W, Undirected, u32>), &what, obs),
        6 => judge_graphmap(js!(GraphMap<W, W, Directed>), &what, obs),
        _ => judge_graphmap(js!(GraphMap<W, W, Undirected>), &what, obs),
    }
}

/// Every consistency guarantee of a GraphMap that can be observed through its API: adjacency lists
/// without duplicates whose entries are nodes and edges of the map, both directions in step,
/// `all_edges` = the edge table = `edge_count`, and removal of everything leaves nothing behind.
pub fn graphmap_consistent<N, E, Ty>(g: &GraphMap<N, E, Ty>) -> Result<(), String>
where
    N: petgraph::graphmap::NodeTrait + std::fmt::Debug,
    E: Clone,
    Ty: EdgeType + Clone,
{
    use petgraph::Direction::{Incoming, Outgoing};
    let directed = Ty::is_directed();
    let nodes: Vec<N> = g.nodes().collect();
    let mut seen = std::collections::BTreeSet::new();
    for &x in &nodes {
        if !seen.insert(x) {
            return Err(format!("node {x:?} listed twice"));
        }
    }
    if nodes.len() != g.node_count() {
        return Err(format!("nodes() yields {} items, node_count() = {}", nodes.len(), g.node_count()));
    }
    let (mut out_total, mut in_total, mut loops) = (0usize, 0usize, 0usize);
    for &x in &nodes {
        for dir in [Outgoing, Incoming] {
            let nb: Vec<N> = g.neighbors_directed(x, dir).take(4 * nodes.len() + 8).collect();
            let mut d = std::collections::BTreeSet::new();
            for &y in &nb {
                if !d.insert(y) {
                    return Err(format!("neighbors_directed({x:?}, {dir:?}) lists {y:?} twice: {nb:?}"));
                }
                if !g.contains_node(y) {
                    return Err(format!("neighbor {y:?} of {x:?} is not a node"));
                }
                let (p, q) = if dir == Outgoing { (x, y) } else { (y, x) };
                if !g.contains_edge(p, q) || g.edge_weight(p, q).is_none() {
                    return Err(format!("{y:?} is a {dir:?} neighbor of {x:?} but the edge table has no edge {p:?}->{q:?}"));
                }
                if !g.neighbors_directed(y, dir.opposite()).take(4 * nodes.len() + 8).any(|z| z == x) {
                    return Err(format!("{y:?} is a {dir:?} neighbor of {x:?} but {x:?} is not an opposite-direction neighbor of {y:?}"));
                }
                if x == y && dir == Outgoing {
                    loops += 1;
                }
            }
            if dir == Outgoing {
                out_total += nb.len();
            } else {
                in_total += nb.len();
            }
        }
    }
    let ec = g.edge_count();
    if directed {
        if out_total != ec || in_total != ec {
            return Err(format!("adjacency lists hold {out_total} outgoing / {in_total} incoming entries, edge_count() = {ec}"));
        }
    } else if out_total + loops != 2 * ec {
        return Err(format!("adjacency lists hold {out_total} entries ({loops} loops), edge_count() = {ec}"));
    }
    let mut pairs = std::collections::BTreeSet::new();
    let mut cnt = 0usize;
    for (x, y, _) in g.all_edges() {
        cnt += 1;
        let key = if directed || x <= y { (x, y) } else { (y, x) };
        if !pairs.insert(key) {
            return Err(format!("all_edges lists {x:?}-{y:?} twice"));
        }
        if !g.contains_node(x) || !g.contains_node(y) || !g.neighbors(x).take(4 * nodes.len() + 8).any(|z| z == y) {
            return Err(format!("edge {x:?}-{y:?} of the edge table is not in the adjacency list of {x:?}"));
        }
    }
    if cnt != ec {
        return Err(format!("all_edges yields {cnt} items, edge_count() = {ec}"));
    }
    let mut g = g.clone();
    for x in nodes {
        if !g.remove_node(x) {
            return Err(format!("remove_node({x:?}) returned false for a listed node"));
        }
    }
    if g.edge_count() != 0 || g.node_count() != 0 || g.all_edges().next().is_some() {
        return Err(format!("after removing every node: {} nodes, {} edges", g.node_count(), g.edge_count()));
    }
    Ok(())
}

fn judge_graphmap<N, E, Ty>(res: Result<Result<GraphMap<N, E, Ty>, String>, String>, what: &str, obs: &mut Obs) -> Result<(), Failure>
where
    N: petgraph::graphmap::NodeTrait + std::fmt::Debug,
    E: Clone,
    Ty: EdgeType + Clone,
{
    match res {
        Err(p) => fail("C17/deserialize-panics", format!("{what}: deserializing a GraphMap panicked: {p}")),
        Ok(Err(_)) => {
            obs.label("rejected (GraphMap)");
            Ok(())
        }
        Ok(Ok(g)) => {
            obs.label("accepted (GraphMap)");
            obs.nontrivial = true;
            match guarded(|| graphmap_consistent(&g)) {
                Ok(Ok(())) => Ok(()),
                Ok(Err(m)) => fail("C17/accepted-graphmap-inconsistent", format!("{what}: accepted GraphMap is inconsistent: {m}")),
                Err(p) => fail("C17/accepted-graphmap-inconsistent", format!("{what}: using the accepted GraphMap panicked: {p}")),
            }
        }
    }
}

// ------------------------------------------------------------------ byte-level mutations of bincode streams

#[derive(Debug, Clone, Serialize, Deserialize)]
pub struct BCase {
    pub g: RawGraph,
    pub salt: u8,
    pub trailing: bool,
    /// (position selector, kind, value): kind 0 flip bit, 1 set byte, 2 truncate here, 3 insert byte, 4 add to byte
    pub edits: Vec<(u16, u8, u8)>,
    pub target: u8,
    pub graphmap: bool,
}

pub fn b_strategy(tier: Tier) -> BoxedStrategy<BCase> {
    let (n, m) = if tier == Tier::Quick { (6, 10) } else { (12, 24) };
    (raw_graph(0, n, m, Some(true)), any::<u8>(), any::<bool>(), proptest::collection::vec((any::<u16>(), 0u8..5, any::<u8>()), 1..4), 0u8..4, prop_oneof![5 => Just(false), 1 => Just(true)])
        .prop_map(|(g, salt, trailing, edits, target, graphmap)| BCase { g, salt, trailing, edits, target, graphmap })
        .boxed()
}

pub fn mutate_bytes(bytes: &mut Vec<u8>, edits: &[(u16, u8, u8)]) {
    for &(p, kind, val) in edits {
        if bytes.is_empty() {
            return;
        }
        let i = pick(p, bytes.len());
        match kind {
            0 => bytes[i] ^= 1 << (val % 8),
            1 => bytes[i] = val,
            2 => bytes.truncate(i),
            3 => bytes.insert(i, val),
            _ => bytes[i] = bytes[i].wrapping_add(val | 1),
        }
    }
}

/// Shared with the libFuzzer target: read `bytes` as one of the graph types and judge the outcome.
pub fn judge_bytes(bytes: &[u8], target: u8, obs: &mut Obs) -> Result<(), Failure> {
    let what = format!("bincode stream of {} bytes {:?}", bytes.len(), &bytes[..bytes.len().min(96)]);
    // bincode's default reader pre-allocates nothing beyond what serde's cautious size hints allow
    macro_rules! bc {
        ($t:ty) => {
            guarded(|| bincode::deserialize::<$t>(bytes).map_err(|e| e.to_string()))
        };
    }
    match target % 6 {
        0 => judge_stable(bc!(StableGraph<W, W, Directed, u8>), &what, obs),
        1 => judge_graph(bc!(Graph<W, W, Directed, u8>), &what, obs),
        2 => judge_stable(bc!(StableGraph<W, W, Directed, u32>), &what, obs),
        3 => judge_graph(bc!(Graph<W, W, Undirected, u32>), &what, obs),
        4 => judge_stable(bc!(StableGraph<W, W, Undirected, u8>), &what, obs),
        _ => judge_graphmap(bc!(GraphMap<i32, i32, Directed>), &what, obs),
    }
}

pub fn b_run(c: &BCase) -> Outcome {
    let a = c.g.build(&GOpts::new(true, true, 1, 9));
    let mut bytes = if c.graphmap {
        let s = super::c10::simplified_min(&a);
        bincode::serialize(&to_graphmap::<i32, Directed>(&s, |w| w)).unwrap()
    } else if c.target % 6 == 0 || c.target % 6 == 1 || c.target % 6 == 4 {
        let sg: StableGraph<W, W, Directed, u8> = stable_with_holes(&a, c.salt as u64 + 1, c.trailing);
        bincode::serialize(&sg).unwrap()
    } else {
        let sg: StableGraph<W, W, Directed, u32> = stable_with_holes(&a, c.salt as u64 + 1, c.trailing);
        bincode::serialize(&sg).unwrap()
    };
    mutate_bytes(&mut bytes, &c.edits);
    let mut obs = Obs::default();
    judge_bytes(&bytes, if c.graphmap { 5 } else { c.target }, &mut obs)?;
    Ok(obs)
}

// ------------------------------------------------------------------ raw bytes (replay unit of the libFuzzer target)

#[derive(Debug, Clone, Serialize, Deserialize)]
pub struct RawCase {
    pub target: u8,
    pub bytes: Vec<u8>,
}

/// Assemble a bincode stream field by field from a tape of small numbers: plausible lengths,
/// option tags, indices and edge-property tags (so most streams get past the framing and exercise
/// the index / vacancy validation), followed by an optional truncation or trailing garbage.
fn assemble(target: u8, tape: &[u8]) -> Vec<u8> {
    let mut pos = 0usize;
    let mut pull = || {
        let b = tape.get(pos).copied().unwrap_or(0);
        pos += 1;
        b
    };
    let t = target % 6;
    let ix1 = matches!(t, 0 | 1 | 4);
    let directed = matches!(t, 0 | 1 | 2 | 5);
    let mut out: Vec<u8> = Vec::new();
    let put_ix = |out: &mut Vec<u8>, v: u8| {
        if ix1 {
            out.push(v)
        } else {
            out.extend_from_slice(&(if v >= 250 { u32::MAX - (255 - v) as u32 } else { v as u32 }).to_le_bytes())
        }
    };
    let small_ix = |b: u8| if b >= 240 { b } else { b % 7 };
    let nn = pull() % 6;
    out.extend_from_slice(&(nn as u64).to_le_bytes());
    for _ in 0..nn {
        if t == 5 {
            out.extend_from_slice(&((pull() % 4) as i32).to_le_bytes());
        } else {
            out.extend_from_slice(&((pull() % 4) as u32).to_le_bytes());
            out.extend_from_slice(&((pull() % 4) as u32).to_le_bytes());
        }
    }
    let nh = match pull() % 8 {
        0..=3 => 0,
        4 | 5 => 1,
        6 => 2,
        _ => 3,
    };
    out.extend_from_slice(&(nh as u64).to_le_bytes());
    for _ in 0..nh {
        let v = small_ix(pull());
        if t == 5 {
            out.extend_from_slice(&(v as u32).to_le_bytes())
        } else {
            put_ix(&mut out, v)
        }
    }
    let ep = match pull() % 8 {
        0..=5 => directed as u32,
        6 => !directed as u32,
        _ => 2,
    };
    out.extend_from_slice(&ep.to_le_bytes());
    let ne = pull() % 7;
    out.extend_from_slice(&(ne as u64).to_le_bytes());
    for _ in 0..ne {
        let tag = match pull() % 16 {
            0..=2 => 0u8,
            15 => 2,
            _ => 1,
        };
        out.push(tag);
        if tag == 1 {
            let (x, y) = (small_ix(pull()), small_ix(pull()));
            if t == 5 {
                out.extend_from_slice(&(x as u32).to_le_bytes());
                out.extend_from_slice(&(y as u32).to_le_bytes());
                out.extend_from_slice(&((pull() % 4) as i32).to_le_bytes());
            } else {
                put_ix(&mut out, x);
                put_ix(&mut out, y);
                out.extend_from_slice(&((pull() % 4) as u32).to_le_bytes());
                out.extend_from_slice(&((pull() % 4) as u32).to_le_bytes());
            }
        }
    }
    match pull() % 10 {
        0 => {
            let cut = pull() as usize % (out.len() + 1);
            out.truncate(cut);
        }
        1 => {
            for _ in 0..pull() % 9 {
                out.push(pull());
            }
        }
        2 => {
            // one byte overwritten
            if !out.is_empty() {
                let at = pull() as usize * out.len() >> 8;
                out[at] = pull();
            }
        }
        _ => {}
    }
    out
}

pub fn raw_strategy(_tier: Tier) -> BoxedStrategy<RawCase> {
    // three quarters assembled from a tape, the rest plain bytes biased to small values
    (any::<u8>(), 0u8..4, proptest::collection::vec((any::<u8>(), any::<u8>()), 0..120))
        .prop_map(|(target, mode, raw)| {
            let bytes: Vec<u8> = if mode > 0 {
                assemble(target, &raw.iter().map(|p| p.1).collect::<Vec<u8>>())
            } else {
                raw.into_iter().map(|(sel, v)| if sel < 150 { 0 } else if sel < 235 { v % 4 } else { v }).collect()
            };
            RawCase { target, bytes }
        })
        .boxed()
}

pub fn raw_run(c: &RawCase) -> Outcome {
    let mut obs = Obs::default();
    judge_bytes(&c.bytes, c.target, &mut obs)?;
    if let Ok(text) = std::str::from_utf8(&c.bytes) {
        judge_json(text, c.target, &mut obs)?;
    }
    Ok(obs)
}

/// entry point of the `deser_bytes` libFuzzer target: first byte = target type, rest = stream
pub fn fuzz_raw(data: &[u8]) {
    if data.is_empty() {
        return;
    }
    fuzz_init();
    let c = RawCase { target: data[0], bytes: data[1..].to_vec() };
    if let Err(f) = run_case_strict(raw_run, &c) {
        let dir = std::path::Path::new(VERIF_DIR).join("failures").join("C17");
        let _ = std::fs::create_dir_all(&dir);
        let path = dir.join(format!("serde_raw-bytes-fuzz-{:08x}.json", data.iter().fold(0u32, |h, &b| h.wrapping_mul(31).wrapping_add(b as u32))));
        let rf = ReplayFile { property: "C17".into(), sub: "serde/raw-bytes".into(), sig: f.sig.clone(), msg: f.msg.clone(), case: serde_json::to_value(&c).unwrap() };
        let _ = std::fs::write(&path, serde_json::to_string_pretty(&rf).unwrap());
        eprintln!("VIOLATION property=C17 replay={}", path.display());
        eprintln!("  signature: {}\n  {}", f.sig, f.msg);
        std::process::abort();
    }
}

/// small valid streams for the fuzzers' starting corpus
pub fn write_seed_corpus(dir: &std::path::Path) {
    let _ = std::fs::create_dir_all(dir);
    let a = AGraph { directed: true, n: 4, edges: vec![(0, 1, 1), (1, 2, 2), (2, 0, 3), (3, 3, 4), (0, 1, 5)] };
    let mut k = 0;
    let mut put = |target: u8, body: Vec<u8>| {
        let mut v = vec![target];
        v.extend(body);
        let _ = std::fs::write(dir.join(format!("seed-{k:02}")), v);
        k += 1;
    };
    for (salt, trailing) in [(1u64, false), (2, true), (5, false)] {
        let s8: StableGraph<W, W, Directed, u8> = stable_with_holes(&a, salt, trailing);
        put(0, bincode::serialize(&s8).unwrap());
        put(0, serde_json::to_vec(&s8).unwrap());
        put(1, bincode::serialize(&Graph::from(s8.clone())).unwrap());
        put(1, serde_json::to_vec(&Graph::from(s8.clone())).unwrap());
        let s32: StableGraph<W, W, Directed, u32> = stable_with_holes(&a, salt, trailing);
        put(2, bincode::serialize(&s32).unwrap());
        put(2, serde_json::to_vec(&s32).unwrap());
    }
    let gm: GraphMap<i32, i32, Directed> = to_graphmap(&super::c10::simplified_min(&a), |w| w);
    put(5, bincode::serialize(&gm).unwrap());
}

pub fn property() -> Property {
    Property {
        id: "C17",
        rule: "round trips: random multigraphs stored as StableGraph with node and edge vacancies (incl. trailing ones), index widths u8/u16/u32/usize, u8 graphs filled to 250..254 nodes, compacted Graph, vacancy-free StableGraph, GraphMap, and weight types [u32;2], String with quotes/backslashes, (), (i8,f32); through serde_json and bincode into the same type, Graph <-> StableGraph, a wider index type and GraphMap -> Graph; the full C01/C02 observation of the result must equal the original's; graphs holding exactly 253..255 elements (u8) as a separate class. hostile input: 1-3 structured mutations of a valid JSON value (drop field, rewrite/extend node_holes, point an edge at a hole / out of range / Ix::MAX, null edges, wrong edge_property, arrays grown to 254/255/256/300 entries, wrong types, duplicated edges, truncated nodes) read as six graph types and as GraphMap, and 1-3 byte edits (bit flip, set, add, insert, truncate) of valid bincode streams of StableGraph<u8|u32> and GraphMap; the result must be Err or a graph that passes the full self-consistency observation and then survives add_node x3, add_edge, remove_node of every node, each step compared with a model; no panic; both build profiles. raw-bytes: bincode streams assembled field by field from a tape of small numbers (plausible lengths, option tags, indices, edge-property tags, then optional truncation / garbage / one overwritten byte) and plain byte strings, read as all six types plus GraphMap; an accepted GraphMap must pass graphmap_consistent (duplicate-free adjacency in both directions = edge table = edge_count, removal of everything); round trips also cover a StableGraph whose trailing slots were used and freed (count == bound) read as Graph, and a multigraph Graph stream read as GraphMap. Non-trivial = round trip of a StableGraph with >= 1 node and >= 1 edge vacancy, or a mutated stream that is accepted; distinct by case fingerprint",
        assumptions: &["bincode streams are read from a slice with bincode's default options (no pre-allocation from untrusted length prefixes beyond serde's cautious size hint)"],
        both_profiles: true,
        subs: vec![
            sub("serde/roundtrip", 30_000, 800_000, r_strategy, r_run),
            sub("serde/roundtrip-at-limit", 60, 400, l_strategy, l_run),
            sub_isolated("serde/hostile-json", 120_000, 3_000_000, h_strategy, h_run),
            sub_isolated("serde/hostile-bincode", 160_000, 4_000_000, b_strategy, b_run),
            sub_isolated("serde/raw-bytes", 200_000, 6_000_000, raw_strategy, raw_run),
        ],
    }
}
