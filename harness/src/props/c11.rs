//! C11 — bellman_ford, spfa, floyd_warshall(_path), find_negative_cycle with negative costs.

use crate::agraph::*;
use crate::engine::*;
use crate::util::pick;
use petgraph::algo::floyd_warshall::floyd_warshall_path;
use petgraph::algo::{bellman_ford, find_negative_cycle, floyd_warshall, spfa, BoundedMeasure, FloatMeasure};
use petgraph::graph::{Graph, NodeIndex};
use petgraph::visit::{
    EdgeRef, GraphProp, IntoEdgeReferences, IntoEdges, IntoNodeIdentifiers, NodeCompactIndexable, NodeCount,
    NodeIndexable, Visitable,
};
use petgraph::{Directed, Undirected};
use proptest::prelude::*;
use serde::{Deserialize, Serialize};
use std::hash::Hash;

#[derive(Debug, Clone, Serialize, Deserialize)]
pub struct Case {
    pub g: RawGraph,
    pub enc: u8,
    pub salt: u8,
    pub src: u16,
    /// weight range selector
    pub wmode: u8,
    /// cost type for spfa / floyd: 0 i32, 1 i64, 2 f64 ; bellman_ford: f64 / f32 by parity
    pub cost: u8,
}

fn mk(g: RawGraph, enc: u8, salt: u8, src: u16, wmode: u8, cost: u8) -> Case {
    Case { g, enc, salt, src, wmode, cost }
}

pub fn strategy(tier: Tier) -> BoxedStrategy<Case> {
    let (maxn, maxm) = if tier == Tier::Quick { (9, 26) } else { (12, 40) };
    (raw_graph(1, maxn, maxm, None), any::<u8>(), any::<u8>(), any::<u16>(), 0u8..5, 0u8..6)
        .prop_map(|(g, enc, salt, src, wmode, cost)| mk(g, enc, salt, src, wmode, cost))
        .boxed()
}

/// dense DAGs with mostly negative weights: the class in which a LIFO work list revisits
/// nodes many times (DESIGN.md C11 (a))
pub fn strategy_dense_dag(tier: Tier) -> BoxedStrategy<Case> {
    let maxn = if tier == Tier::Quick { 10 } else { 12 };
    (raw_graph(6, maxn, 60, Some(true)), any::<u8>(), any::<u8>(), any::<u16>(), 1u8..3, 0u8..6)
        .prop_map(|(mut g, enc, salt, src, wmode, cost)| {
            g.shape = 6;
            mk(g, enc, salt, src, wmode, cost)
        })
        .boxed()
}

fn opts(wmode: u8) -> GOpts {
    match wmode % 5 {
        0 => GOpts::new(true, true, -6, 12),
        1 => GOpts::new(true, true, -9, 2),
        2 => GOpts::new(true, true, -12, -1),
        3 => GOpts::new(true, true, 0, 9),
        _ => GOpts::new(true, true, -2, 12),
    }
}

trait Nid: Copy + Eq + Hash + std::fmt::Debug {}
impl<T: Copy + Eq + Hash + std::fmt::Debug> Nid for T {}

pub trait BCost: BoundedMeasure + Copy + PartialEq + std::fmt::Debug {
    fn of(w: i64) -> Self;
}
impl BCost for i32 {
    fn of(w: i64) -> Self {
        w as i32
    }
}
impl BCost for i8 {
    fn of(w: i64) -> Self {
        w as i8
    }
}
impl BCost for i64 {
    fn of(w: i64) -> Self {
        w
    }
}
impl BCost for f64 {
    fn of(w: i64) -> Self {
        w as f64 * 0.25
    }
}
pub trait FCost: FloatMeasure + PartialEq + std::fmt::Debug {
    fn of(w: i64) -> Self;
}
impl FCost for f64 {
    fn of(w: i64) -> Self {
        w as f64 * 0.25
    }
}
impl FCost for f32 {
    fn of(w: i64) -> Self {
        w as f32 * 0.25
    }
}

/// predecessor tree check shared by bellman_ford and spfa
fn check_tree<N: Nid>(
    v: &View<N>,
    s: usize,
    dist: &[i64],
    pred: &dyn Fn(usize) -> Option<N>,
    what: &str,
    sigp: &str,
) -> Result<(), Failure> {
    let a = v.a;
    for l in 0..a.n {
        let p = pred(l);
        if l == s || dist[l] >= INF {
            ensure!(p.is_none(), format!("{sigp}-pred-on-root-or-unreachable"), "{what} from {s}: node {l} (source or unreachable) has predecessor {p:?}");
            continue;
        }
        let Some(p) = p else {
            return fail(format!("{sigp}-pred-missing"), format!("{what} from {s}: reachable node {l} has no predecessor"));
        };
        let pl = v.label(p, what)?;
        let ok = a.edges.iter().any(|&(x, y, w)| {
            ((x == pl && y == l) || (!a.directed && x == l && y == pl)) && dist[pl] < INF && dist[pl] + w as i64 == dist[l]
        });
        ensure!(ok, format!("{sigp}-pred-not-tight"), "{what} from {s}: predecessor {pl} of {l} is not on a shortest path (dist {} -> {})", dist[pl], dist[l]);
        // chain reaches the source
        let mut cur = l;
        let mut steps = 0;
        while cur != s {
            let Some(q) = pred(cur) else {
                return fail(format!("{sigp}-pred-chain-broken"), format!("{what} from {s}: predecessor chain of {l} ends at {cur}"));
            };
            cur = v.label(q, what)?;
            steps += 1;
            ensure!(steps <= a.n, format!("{sigp}-pred-chain-cycle"), "{what} from {s}: predecessor chain of {l} cycles");
        }
    }
    Ok(())
}

fn check_bf<G, K>(g: G, v: &View<G::NodeId>, c: &Case, obs: &mut Obs) -> Result<(), Failure>
where
    G: NodeCount + IntoNodeIdentifiers + IntoEdges + NodeIndexable + Visitable + Copy,
    G::NodeId: Nid,
    G: petgraph::visit::Data<EdgeWeight = K>,
    K: FCost,
{
    let a = v.a;
    let n = a.n;
    let s = pick(c.src, n);
    let truth = a.dist_from(s);
    let res = bellman_ford(g, v.id(s));
    match (&res, &truth) {
        (Err(_), None) => {}
        (Err(_), Some(_)) => return fail("C11/bellman_ford-false-negative-cycle", format!("bellman_ford from {s}: NegativeCycle although none is reachable")),
        (Ok(_), None) => return fail("C11/bellman_ford-missed-negative-cycle", format!("bellman_ford from {s}: Ok although a negative cycle is reachable")),
        (Ok(p), Some(dist)) => {
            ensure_eq!(p.distances.len(), g.node_bound(), "C11/bellman_ford-length", "distances.len() vs node_bound");
            for l in 0..n {
                let got = p.distances[g.to_index(v.id(l))];
                let exp = if dist[l] >= INF { K::infinite() } else { K::of(dist[l]) };
                ensure_eq!(got, exp, "C11/bellman_ford-distance", "bellman_ford from {s}: distance of {l}");
            }
            check_tree(v, s, dist, &|l| p.predecessors[g.to_index(v.id(l))], "bellman_ford", "C11/bellman_ford")?;
        }
    }
    // find_negative_cycle: Some iff bellman_ford errs, and then a closed negative walk
    let cyc = find_negative_cycle(g, v.id(s));
    match (&cyc, &truth) {
        (None, Some(_)) => {}
        (None, None) => return fail("C11/find_negative_cycle-none", format!("find_negative_cycle from {s}: None although a negative cycle is reachable")),
        (Some(p), Some(_)) => return fail("C11/find_negative_cycle-spurious", format!("find_negative_cycle from {s}: returned {p:?} although no negative cycle is reachable")),
        (Some(p), None) => {
            let ls: Vec<usize> = p.iter().map(|&x| v.label(x, "find_negative_cycle")).collect::<Result<_, _>>()?;
            ensure!(!ls.is_empty(), "C11/find_negative_cycle-empty", "find_negative_cycle from {s}: Some(empty)");
            let mut sum = 0i64;
            for i in 0..ls.len() {
                let (x, y) = (ls[i], ls[(i + 1) % ls.len()]);
                match a.min_edge(x, y) {
                    Some(w) => sum += w as i64,
                    None => {
                        return fail(
                            "C11/find_negative_cycle-not-a-closed-walk",
                            format!("find_negative_cycle from {s}: {ls:?} is not a closed walk, no edge {x}->{y}"),
                        )
                    }
                }
            }
            ensure!(sum < 0, "C11/find_negative_cycle-not-negative", "find_negative_cycle from {s}: closed walk {ls:?} has cost {sum} >= 0");
            obs.label("negative cycle found");
        }
    }
    Ok(())
}

fn check_spfa<G, K>(g: G, v: &View<G::NodeId>, c: &Case, _obs: &mut Obs) -> Result<(), Failure>
where
    G: IntoEdges + IntoNodeIdentifiers + NodeIndexable + Copy,
    G::NodeId: Nid,
    G::EdgeRef: EdgeRef<Weight = i32>,
    K: BCost,
{
    let a = v.a;
    let n = a.n;
    let s = pick(c.src, n);
    let truth = a.dist_from(s);
    let res = spfa(g, v.id(s), |e| K::of(*e.weight() as i64));
    match (&res, &truth) {
        (Err(_), None) => {}
        (Err(_), Some(_)) => return fail("C11/spfa-false-negative-cycle", format!("spfa from {s}: NegativeCycle although the graph has no negative cycle reachable from the source")),
        (Ok(_), None) => return fail("C11/spfa-missed-negative-cycle", format!("spfa from {s}: Ok although a negative cycle is reachable")),
        (Ok(p), Some(dist)) => {
            for l in 0..n {
                let got = p.distances[g.to_index(v.id(l))];
                let exp = if dist[l] >= INF { K::max() } else { K::of(dist[l]) };
                ensure_eq!(got, exp, "C11/spfa-distance", "spfa from {s}: distance of {l}");
            }
            check_tree(v, s, dist, &|l| p.predecessors[g.to_index(v.id(l))], "spfa", "C11/spfa")?;
        }
    }
    Ok(())
}

fn check_floyd<G, K>(g: G, v: &View<G::NodeId>, _c: &Case, _obs: &mut Obs) -> Result<(), Failure>
where
    G: NodeCompactIndexable + IntoEdgeReferences + IntoNodeIdentifiers + GraphProp + Copy,
    G::NodeId: Nid,
    G::EdgeRef: EdgeRef<Weight = i32>,
    K: BCost,
{
    let a = v.a;
    let n = a.n;
    let all: Vec<Option<Vec<i64>>> = (0..n).map(|s| a.dist_from(s)).collect();
    let neg = all.iter().any(|d| d.is_none());
    let r1 = floyd_warshall(g, |e| K::of(*e.weight() as i64));
    let r2 = floyd_warshall_path(g, |e| K::of(*e.weight() as i64));
    ensure_eq!(r1.is_err(), neg, "C11/floyd_warshall-negative-cycle-verdict", "floyd_warshall returned Err (expected: graph has a negative cycle = {neg})");
    ensure_eq!(r2.is_err(), neg, "C11/floyd_warshall_path-negative-cycle-verdict", "floyd_warshall_path returned Err");
    if neg {
        return Ok(());
    }
    let d1 = r1.unwrap();
    let (d2, prev) = r2.unwrap();
    ensure_eq!(d1.len(), n * n, "C11/floyd_warshall-entries", "number of entries");
    for x in 0..n {
        let dist = all[x].as_ref().unwrap();
        for y in 0..n {
            let exp = if dist[y] >= INF { K::max() } else { K::of(dist[y]) };
            let got = d1.get(&(v.id(x), v.id(y))).copied();
            ensure_eq!(got, Some(exp), "C11/floyd_warshall-distance", "floyd_warshall: distance {x}->{y} (true distance {})", if dist[y] >= INF { "unreachable".to_string() } else { dist[y].to_string() });
            ensure_eq!(d2.get(&(v.id(x), v.id(y))).copied(), Some(exp), "C11/floyd_warshall_path-distance", "floyd_warshall_path: distance {x}->{y}");
            // prev spells a shortest path
            let (ix, iy) = (g.to_index(v.id(x)), g.to_index(v.id(y)));
            if dist[y] >= INF {
                ensure!(prev[ix][iy].is_none(), "C11/floyd_warshall_path-prev-unreachable", "prev[{x}][{y}] set for an unreachable pair");
            } else {
                let mut cur = iy;
                let mut sum = 0i64;
                let mut steps = 0;
                while cur != ix {
                    let Some(p) = prev[ix][cur] else {
                        return fail("C11/floyd_warshall_path-prev-broken", format!("prev chain {x}->{y} breaks at index {cur}"));
                    };
                    let (pl, cl) = (v.label(g.from_index(p), "floyd prev")?, v.label(g.from_index(cur), "floyd prev")?);
                    match a.min_edge(pl, cl) {
                        Some(w) => sum += w as i64,
                        None => return fail("C11/floyd_warshall_path-prev-non-edge", format!("prev chain {x}->{y} uses the non-edge {pl}->{cl}")),
                    }
                    cur = p;
                    steps += 1;
                    ensure!(steps <= n, "C11/floyd_warshall_path-prev-cycle", "prev chain {x}->{y} cycles");
                }
                ensure_eq!(sum, dist[y], "C11/floyd_warshall_path-prev-cost", "cost of the path spelled by prev for {x}->{y}");
            }
        }
    }
    Ok(())
}

fn fgraph<K: FCost, Ty: petgraph::EdgeType>(a: &AGraph) -> Graph<usize, K, Ty, u32> {
    to_graph(a, |w| K::of(w as i64))
}

pub fn run(c: &Case) -> Outcome {
    let a0 = c.g.build(&opts(c.wmode));
    let n = a0.n;
    let mut obs = Obs::default();
    let enc = c.enc % 5;
    let simple = super::c10::simplified_min(&a0);
    let a = if enc >= 2 { &simple } else { &a0 };
    let gix = (0..n).map(NodeIndex::<u32>::new);

    macro_rules! spfa_floyd {
        ($g:expr, $v:expr, floyd) => {{
            spfa_floyd!($g, $v, nofloyd);
            match c.cost % 3 {
                0 => check_floyd::<_, i32>($g, $v, c, &mut obs)?,
                1 => check_floyd::<_, i64>($g, $v, c, &mut obs)?,
                _ => check_floyd::<_, f64>($g, $v, c, &mut obs)?,
            }
        }};
        ($g:expr, $v:expr, nofloyd) => {{
            match c.cost % 3 {
                0 => check_spfa::<_, i32>($g, $v, c, &mut obs)?,
                1 => check_spfa::<_, i64>($g, $v, c, &mut obs)?,
                _ => check_spfa::<_, f64>($g, $v, c, &mut obs)?,
            }
        }};
    }
    macro_rules! bf {
        ($build:expr, $vb:expr) => {{
            if c.cost % 2 == 0 {
                let (g, v) = $build(|w: i32| <f64 as FCost>::of(w as i64));
                check_bf::<_, f64>(&g, &v, c, &mut obs)?;
            } else {
                let (g, v) = $build(|w: i32| <f32 as FCost>::of(w as i64));
                check_bf::<_, f32>(&g, &v, c, &mut obs)?;
            }
        }};
    }

    match (enc, a.directed) {
        (0, true) => {
            let g: Graph<usize, i32, Directed, u32> = to_graph(a, |w| w);
            let v = View::full(a, gix.clone());
            spfa_floyd!(&g, &v, floyd);
            if c.cost % 2 == 0 {
                check_bf::<_, f64>(&fgraph::<f64, Directed>(a), &v, c, &mut obs)?;
            } else {
                check_bf::<_, f32>(&fgraph::<f32, Directed>(a), &v, c, &mut obs)?;
            }
            obs.label("Graph directed");
        }
        (0, false) => {
            let g: Graph<usize, i32, Undirected, u32> = to_graph(a, |w| w);
            let v = View::full(a, gix.clone());
            spfa_floyd!(&g, &v, floyd);
            if c.cost % 2 == 0 {
                check_bf::<_, f64>(&fgraph::<f64, Undirected>(a), &v, c, &mut obs)?;
            } else {
                check_bf::<_, f32>(&fgraph::<f32, Undirected>(a), &v, c, &mut obs)?;
            }
            obs.label("Graph undirected");
        }
        (1, true) => {
            let (g, map) = to_stable_holes::<i32, Directed, u32>(a, c.salt as u64 + 1, |w| w);
            let v = View::full(a, map);
            spfa_floyd!(&g, &v, nofloyd);
            bf!(|f: fn(i32) -> _| { let (g, map) = to_stable_holes::<_, Directed, u32>(a, c.salt as u64 + 1, f); (g, View::full(a, map)) }, ());
            obs.label("StableGraph directed, holes");
        }
        (1, false) => {
            let (g, map) = to_stable_holes::<i32, Undirected, u32>(a, c.salt as u64 + 1, |w| w);
            let v = View::full(a, map);
            spfa_floyd!(&g, &v, nofloyd);
            bf!(|f: fn(i32) -> _| { let (g, map) = to_stable_holes::<_, Undirected, u32>(a, c.salt as u64 + 1, f); (g, View::full(a, map)) }, ());
            obs.label("StableGraph undirected, holes");
        }
        (2, true) => {
            let g = to_graphmap::<i32, Directed>(a, |w| w);
            let v = View::full(a, (0..n).map(gm_key));
            spfa_floyd!(&g, &v, floyd);
            bf!(|f: fn(i32) -> _| (to_graphmap::<_, Directed>(a, f), View::full(a, (0..n).map(gm_key))), ());
            obs.label("GraphMap directed");
        }
        (2, false) => {
            let g = to_graphmap::<i32, Undirected>(a, |w| w);
            let v = View::full(a, (0..n).map(gm_key));
            spfa_floyd!(&g, &v, floyd);
            bf!(|f: fn(i32) -> _| (to_graphmap::<_, Undirected>(a, f), View::full(a, (0..n).map(gm_key))), ());
            obs.label("GraphMap undirected");
        }
        (3, true) => {
            let g = to_csr::<i32, Directed>(a, |w| w);
            let v = View::full(a, (0..n).map(|i| i as u32));
            spfa_floyd!(&g, &v, floyd);
            bf!(|f: fn(i32) -> _| (to_csr::<_, Directed>(a, f), View::full(a, (0..n).map(|i| i as u32))), ());
            obs.label("Csr directed");
        }
        (3, false) => {
            let g = to_csr::<i32, Undirected>(a, |w| w);
            let v = View::full(a, (0..n).map(|i| i as u32));
            spfa_floyd!(&g, &v, floyd);
            bf!(|f: fn(i32) -> _| (to_csr::<_, Undirected>(a, f), View::full(a, (0..n).map(|i| i as u32))), ());
            obs.label("Csr undirected");
        }
        (_, true) => {
            let (g, map) = to_matrix_holes::<i32, Directed>(a, c.salt as u64 + 1, |w| w);
            let v = View::full(a, map);
            spfa_floyd!(&g, &v, nofloyd);
            bf!(|f: fn(i32) -> _| { let (g, map) = to_matrix_holes::<_, Directed>(a, c.salt as u64 + 1, f); (g, View::full(a, map)) }, ());
            obs.label("MatrixGraph directed, holes");
        }
        (_, false) => {
            let (g, map) = to_matrix_holes::<i32, Undirected>(a, c.salt as u64 + 1, |w| w);
            let v = View::full(a, map);
            spfa_floyd!(&g, &v, nofloyd);
            bf!(|f: fn(i32) -> _| { let (g, map) = to_matrix_holes::<_, Undirected>(a, c.salt as u64 + 1, f); (g, View::full(a, map)) }, ());
            obs.label("MatrixGraph undirected, holes");
        }
    }
    let has_neg = a.edges.iter().any(|e| e.2 < 0);
    let s = pick(c.src, n);
    let truth = a.dist_from(s);
    let unreachable = truth.as_ref().map_or(false, |d| d.iter().any(|&x| x >= INF));
    obs.nontrivial = has_neg && (truth.is_none() || unreachable);
    obs.label_if(truth.is_none(), "negative cycle reachable from source");
    obs.label_if(has_neg && truth.is_some(), "negative edges, no reachable negative cycle");
    obs.label_if(a.edges.iter().any(|e| e.0 == e.1 && e.2 < 0), "negative self-loop");
    Ok(obs)
}

// ---------------------------------------------------------------------------------------------
// bounded integer costs near the limits of the type (i8): sums along non-shortest walks overflow,
// the answers themselves are representable

pub fn strategy_i8(tier: Tier) -> BoxedStrategy<Case> {
    let (maxn, maxm) = if tier == Tier::Quick { (6, 14) } else { (9, 24) };
    (raw_graph(1, maxn, maxm, None), any::<u8>(), any::<u8>(), any::<u16>(), 0u8..4, 0u8..6)
        .prop_map(|(g, enc, salt, src, wmode, cost)| mk(g, enc, salt, src, wmode, cost))
        .boxed()
}

pub fn run_i8(c: &Case) -> Outcome {
    let mut a = match c.wmode % 4 {
        0 => c.g.build(&GOpts::new(true, true, -128, 127)),
        1 => c.g.build(&GOpts::new(true, true, -128, 20)),
        2 => c.g.build(&GOpts::new(true, true, -20, 127)),
        _ => c.g.build(&GOpts::new(true, true, -9, 9)),
    };
    if c.wmode % 4 == 3 {
        // small weights with a few huge ones
        for (i, e) in a.edges.iter_mut().enumerate() {
            if (i + c.salt as usize) % 3 == 0 {
                e.2 = (e.2 * 14).clamp(-128, 127);
            }
        }
    }
    // Domain: bounded arithmetic must be able to hold every upper estimate an algorithm forms, or
    // "reachable" itself stops being decidable for it (a cycle behind a path of cost >= 127 = max()).
    // The positive weights are scaled so that they sum to at most 126: then every simple path, and
    // with it every finite estimate, is below max(); what is left is overflow on the negative side.
    let pos: i64 = a.edges.iter().map(|e| e.2.max(0) as i64).sum();
    if pos > 126 {
        for e in a.edges.iter_mut() {
            if e.2 > 0 {
                e.2 = (e.2 as i64 * 126 / pos) as i32;
            }
        }
    }
    let n = a.n;
    let mut obs = Obs::default();
    let s = pick(c.src, n);
    let all: Vec<Option<Vec<i64>>> = (0..n).map(|x| a.dist_from(x)).collect();
    // 127 is `max()`, the "unreachable" marker: a true distance must lie in -128..=126 to be representable
    let fits = |d: &Vec<i64>| d.iter().all(|&x| x >= INF || (-128..=126).contains(&x));
    let any_neg = all.iter().any(|d| d.is_none());
    let floyd_domain = any_neg || all.iter().all(|d| fits(d.as_ref().unwrap()));
    let spfa_domain = match &all[s] {
        None => true,
        Some(d) => fits(d),
    };
    let gix = (0..n).map(NodeIndex::<u32>::new);
    // the same call with i64 costs: tells a failure of the i8 run that bounded arithmetic causes
    // from one that the algorithm has for every cost type
    macro_rules! both {
        ($g:expr, $v:expr) => {{
            if spfa_domain {
                if let Err(f) = check_spfa::<_, i8>($g, $v, c, &mut obs) {
                    let wide_ok = check_spfa::<_, i64>($g, $v, c, &mut obs).is_ok();
                    let f = if wide_ok && f.sig == "C11/spfa-missed-negative-cycle" {
                        Failure { sig: "C11/spfa-missed-negative-cycle/bounded-cost-underflow".into(), msg: format!("{} (cost type i8; the same call with i64 costs reports the cycle) graph {:?}", f.msg, a) }
                    } else {
                        Failure { sig: f.sig, msg: format!("{} (cost type i8) graph {:?}", f.msg, a) }
                    };
                    obs.deferred.push(f);
                }
                obs.label("spfa: answers representable in i8");
            }
            if floyd_domain {
                if let Err(f) = check_floyd::<_, i8>($g, $v, c, &mut obs) {
                    let wide_ok = check_floyd::<_, i64>($g, $v, c, &mut obs).is_ok();
                    let verdict = f.sig.ends_with("negative-cycle-verdict") && any_neg;
                    let f = if wide_ok && verdict {
                        Failure { sig: "C11/floyd_warshall-missed-negative-cycle/bounded-cost-underflow".into(), msg: format!("{} (cost type i8; the same call with i64 costs reports the cycle) graph {:?}", f.msg, a) }
                    } else {
                        Failure { sig: f.sig, msg: format!("{} (cost type i8) graph {:?}", f.msg, a) }
                    };
                    obs.deferred.push(f);
                }
                obs.label("floyd_warshall: answers representable in i8");
            }
        }};
    }
    if a.directed {
        let g: Graph<usize, i32, Directed, u32> = to_graph(&a, |w| w);
        let v = View::full(&a, gix);
        both!(&g, &v);
    } else {
        let g: Graph<usize, i32, Undirected, u32> = to_graph(&a, |w| w);
        let v = View::full(&a, gix);
        both!(&g, &v);
    }
    let big = a.edges.iter().filter(|e| e.2.abs() >= 64).count();
    obs.label_if(any_neg, "negative cycle somewhere");
    obs.label_if(!spfa_domain || !floyd_domain, "some answer not representable in i8 (that algorithm skipped)");
    obs.nontrivial = big >= 2 && (spfa_domain || floyd_domain) && n >= 2;
    Ok(obs)
}

/// bounded-exhaustive scope: every digraph on 1..=3 nodes and every undirected graph on 1..=3 nodes
/// (loops included) with every assignment of the costs {-3, 0, 2} to its edges, x encoding x source
const ENUM_P: u64 = 5 * 3;
fn enum_count(_tier: Tier) -> u64 {
    small_weighted_count(3, 3) * ENUM_P
}
fn enum_make(_tier: Tier, i: u64) -> Case {
    let (dir, n, code) = small_weighted(i / ENUM_P, 3, 3).expect("index within the scope");
    let p = i % ENUM_P;
    // wmode 0 = costs -6..=12: weight(byte) = -6 + (byte * 19 >> 8): 41 -> -3, 81 -> 0, 108 -> 2
    mk(raw_quaternary(dir, n, code, [41, 81, 108]), (p % 5) as u8, (i % 251) as u8, sel_for((p / 5) as usize % n, n), 0, (i % 6) as u8)
}

/// libFuzzer entry / from-bytes generator: bring a decoded case into the domain of `strategy`
pub fn fuzz_domain(c: &mut Case) -> bool {
    c.g.sanitize(1, 12, 40, None);
    c.wmode %= 5;
    c.cost %= 6;
    true
}
pub fn bytes_strategy(_tier: Tier) -> BoxedStrategy<Case> {
    decoded_strategy(fuzz_domain)
}

pub fn property() -> Property {
    Property {
        id: "C11",
        rule: "random weighted multigraphs (1..=9 nodes quick) with weights from five ranges (mixed -6..12, mostly negative, all negative, non-negative control, slightly negative), plus a dedicated class of dense negative-weight DAGs with 6..=10 nodes; stored as Graph / StableGraph+MatrixGraph with vacancies / GraphMap / Csr; cost types i32,i64,f64 (spfa, floyd) and f64,f32 (bellman_ford); verdicts, distances, predecessor trees, prev matrices and returned cycles compared with an exact fixpoint Bellman-Ford over i64 from every source; non-trivial = a negative edge together with an unreachable node or a reachable negative cycle; sub-check i8-extremes: cost type i8 with weights over the whole range -128..=127 (positive weights scaled to sum <= 126 so that every finite estimate stays below max(), the unreachable marker), spfa and floyd_warshall judged whenever their true answers are representable (-128..=126 or a negative cycle), a failure re-run with i64 costs to tell bounded-arithmetic causes from general ones, non-trivial = at least two edges of magnitude >= 64; distinct by case fingerprint; bounded-exhaustive sub-check: every directed / undirected graph on 1..=3 nodes (loops included) with every assignment of the costs {-3,0,2} to its edges x 5 encodings x source",
        assumptions: &["float costs are multiples of 0.25 below 2^10 in magnitude, so every sum is exact and equality needs no tolerance"],
        both_profiles: false,
        subs: vec![
            sub_fuzz("negcost/general", 3_000_000, 40_000_000, strategy, run, fuzz_domain), sub("negcost/general-from-bytes", 600_000, 10_000_000, bytes_strategy, run),
            sub_enum("negcost/all-small-weighted-graphs", enum_count, enum_make, run),
            sub("negcost/dense-negative-dag", 1_200_000, 20_000_000, strategy_dense_dag, run),
            sub("negcost/i8-extremes", 1_000_000, 20_000_000, strategy_i8, run_i8),
        ],
    }
}
