#!/bin/sh
# run the repository's pinned baseline suite in directory $1 (default /repo); prints the summary line
cd "${1:-/repo}" && cargo nextest run --workspace --no-fail-fast --tool-config-file pb:/w/lib/nextest.toml --profile pb --test-threads 8 --offline 2>&1 | grep -E "Summary|FAIL|error" | head -20
