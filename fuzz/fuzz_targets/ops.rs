#![no_main]
//! Operation histories for the container state machines and graph-algorithm cases.  The input is decoded structurally into the
//! sub-check's case type (pgcheck::fuzzde: every byte string is a case, small byte mutations are small
//! case mutations), brought into the strategy's domain by the sub-check's domain function and run
//! through the same interpreter and model as the proptest campaigns.
use libfuzzer_sys::fuzz_target;

const TARGETS: &[(&str, &str)] = &[
    ("C01", "graph/history"),
    ("C02", "stable/history"),
    ("C04", "matrix/history"),
    ("C03", "graphmap/history"),
    ("C05", "csr/history"),
    ("C05", "list/history"),
    ("C14", "acyclic/history"),
    ("C19", "unionfind/history"),
    ("C08", "traversal/walkers+dfsvisit"),
    ("C09", "connectivity/all"),
    ("C10", "shortest/nonneg"),
    ("C11", "negcost/general"),
    ("C12", "mst/kruskal+prim"),
    ("C15", "matching/validity+maximum"),
    ("C15", "flow/ford_fulkerson"),
    ("C16", "dominators/simple_fast"),
    ("C16", "articulation_points/brute"),
];

fuzz_target!(|data: &[u8]| {
    // PGFUZZ_TARGET selects the sub-check (whole input = encoded case); without it the first byte does
    let (sel, body) = match std::env::var("PGFUZZ_TARGET").ok().and_then(|s| s.parse::<usize>().ok()) {
        Some(sel) => (sel, data),
        None => {
            if data.is_empty() {
                return;
            }
            (data[0] as usize, &data[1..])
        }
    };
    let (prop, sub) = TARGETS[sel % TARGETS.len()];
    static PROPS: std::sync::OnceLock<Vec<pgcheck::engine::Property>> = std::sync::OnceLock::new();
    let props = PROPS.get_or_init(pgcheck::props::all);
    pgcheck::engine::fuzz_one(props, prop, sub, body);
});
