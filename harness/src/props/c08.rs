//! C08 — Dfs, Bfs, DfsPostOrder, Topo and depth_first_search.

use crate::agraph::*;
use crate::engine::*;
use crate::util::pick;
use petgraph::adj::List;
use petgraph::graph::{Graph, NodeIndex};
use petgraph::visit::{
    depth_first_search, Bfs, Control, Dfs, DfsEvent, DfsPostOrder, IntoNeighbors, IntoNeighborsDirected,
    EdgeFiltered, EdgeRef, IntoNodeIdentifiers, NodeFiltered, Reversed, Time, Topo, UndirectedAdaptor, VisitMap, Visitable, Walker,
};
use petgraph::{Directed, Undirected};
use proptest::prelude::*;
use serde::{Deserialize, Serialize};
use std::collections::HashMap;
use std::hash::Hash;
use crate::agraph::View;

#[derive(Debug, Clone, Serialize, Deserialize)]
pub struct Case {
    pub g: RawGraph,
    pub enc: u8,
    pub salt: u8,
    pub start: u16,
    pub starts: Vec<u16>,
    /// responses of the visitor, consumed one per event (cyclically): <35 Continue, 35..=38 Prune, >=39 Break
    pub script: Vec<u8>,
    /// (cut the current phase after this many items, then move_to this node); u16 selectors
    pub moves: Vec<(u8, u16)>,
    pub filter: u16,
}

pub fn strategy(tier: Tier) -> BoxedStrategy<Case> {
    let (maxn, maxm) = if tier == Tier::Quick { (10, 24) } else { (14, 40) };
    (
        raw_graph(1, maxn, maxm, None),
        any::<u8>(),
        any::<u8>(),
        any::<u16>(),
        proptest::collection::vec(any::<u16>(), 0..4),
        prop_oneof![
            2 => Just(vec![]),
            3 => proptest::collection::vec(0u8..41, 1..24),
            1 => proptest::collection::vec(30u8..41, 1..8),
        ],
        proptest::collection::vec((any::<u8>(), any::<u16>()), 0..4),
        any::<u16>(),
    )
        .prop_map(|(g, enc, salt, start, starts, script, moves, filter)| Case {
            g,
            enc,
            salt,
            start,
            starts,
            script,
            moves,
            filter,
        })
        .boxed()
}

const OPTS: GOpts = GOpts::new(true, true, 1, 1);

/// nodes reachable from `s` using only nodes with allowed[v]
fn reach_within(adj: &[Vec<(usize, usize)>], s: usize, allowed: &[bool]) -> Vec<bool> {
    let mut seen = vec![false; adj.len()];
    if !allowed[s] {
        return seen;
    }
    let mut stack = vec![s];
    seen[s] = true;
    while let Some(u) = stack.pop() {
        for &(v, _) in &adj[u] {
            if allowed[v] && !seen[v] {
                seen[v] = true;
                stack.push(v);
            }
        }
    }
    seen
}

fn check_basic<G>(g: G, v: &View<G::NodeId>, c: &Case, obs: &mut Obs) -> Result<(), Failure>
where
    G: IntoNeighbors + Visitable + Copy,
    G::NodeId: Copy + Eq + Hash + std::fmt::Debug,
{
    let a = v.a;
    let n = a.n;
    if v.live.is_empty() {
        return Ok(());
    }
    let adj = a.out_adj();
    let s = v.live[pick(c.start, v.live.len())];
    let all = vec![true; n];
    let reach_s = reach_within(&adj, s, &all);
    let limit = n + 2;

    // ---- Dfs, single phase, through Walker::iter ----
    {
        let mut seen = vec![false; n];
        let mut count = 0;
        for x in Dfs::new(g, v.id(s)).iter(g).take(limit) {
            let l = v.label(x, "Dfs")?;
            ensure!(!seen[l], "C08/dfs-repeats", "Dfs from {s} emitted node {l} twice");
            ensure!(reach_s[l], "C08/dfs-unreachable", "Dfs from {s} emitted unreachable node {l}");
            seen[l] = true;
            count += 1;
        }
        ensure!(count <= n, "C08/dfs-too-many", "Dfs from {s} emitted more than {n} nodes");
        ensure_eq!(seen, reach_s, "C08/dfs-set", "Dfs from {s}: emitted set vs reachable set");
        // the wrapped walker is reachable through WalkerIter and steering it (move_to) shows in the iteration;
        // a `&mut` walker is a walker, too
        let mut it = Dfs::new(g, v.id(s)).iter(g);
        let first = it.next();
        ensure!(first == Some(v.id(s)), "C08/dfs-first", "Dfs from {s}: first item {first:?}");
        ensure!(it.inner_ref().discovered.is_visited(&v.id(s)), "C08/walker-iter-inner", "WalkerIter::inner_ref(): the start node is not marked discovered after it was emitted");
        let other = v.live[pick(c.start.wrapping_mul(31), v.live.len())];
        it.inner_mut().move_to(v.id(other));
        let _ = it.context();
        let nxt = it.next();
        if let Some(x) = nxt {
            let l = v.label(x, "Dfs after inner_mut().move_to")?;
            ensure!(reach_s[l] || reach_within(&adj, other, &all)[l], "C08/walker-iter-inner", "after move_to({other}) through inner_mut() the iterator yields {l}, reachable from neither {s} nor {other}");
        }
        let mut dfs2 = Dfs::new(g, v.id(s));
        let via_ref: Vec<G::NodeId> = (&mut dfs2).iter(g).take(limit).collect();
        let direct: Vec<G::NodeId> = Dfs::new(g, v.id(s)).iter(g).take(limit).collect();
        ensure!(via_ref == direct, "C08/walker-by-mut-ref", "iterating `&mut Dfs` gives {via_ref:?}, the walker itself {direct:?}");
    }

    // ---- Dfs with move_to phases and a reset ----
    {
        let mut dfs = Dfs::empty(g);
        let mut discovered = vec![false; n];
        let mut phases: Vec<(u8, u16)> = vec![(255, 0)];
        phases.extend(c.moves.iter().copied());
        let mut start = s;
        for (pi, &(cut, nxt)) in phases.iter().enumerate() {
            if pi > 0 {
                start = v.live[pick(nxt, v.live.len())];
            }
            dfs.move_to(v.id(start));
            let allowed: Vec<bool> = discovered.iter().map(|d| !d).collect();
            let expect = reach_within(&adj, start, &allowed);
            let expect_n = expect.iter().filter(|&&b| b).count();
            let cut = if cut >= 200 { usize::MAX } else { cut as usize % (n + 1) };
            let mut emitted = vec![false; n];
            let mut k = 0;
            while k < cut {
                let Some(x) = dfs.next(g) else { break };
                let l = v.label(x, "Dfs")?;
                ensure!(!discovered[l], "C08/dfs-repeats", "Dfs phase {pi} (move_to {start}) re-emitted node {l}");
                ensure!(
                    expect[l],
                    "C08/dfs-move_to-outside",
                    "Dfs phase {pi} (move_to {start}) emitted {l}, not reachable through undiscovered nodes"
                );
                discovered[l] = true;
                emitted[l] = true;
                k += 1;
                ensure!(k <= n, "C08/dfs-too-many", "Dfs emitted more than {n} nodes");
            }
            if cut == usize::MAX || k < cut {
                // phase ran to exhaustion
                ensure_eq!(k, expect_n, "C08/dfs-move_to-set", "Dfs phase {pi} (move_to {start}) number of emitted nodes");
                ensure_eq!(emitted, expect, "C08/dfs-move_to-set", "Dfs phase {pi} (move_to {start}) emitted set");
            } else {
                obs.label("dfs phase cut short");
            }
            if pi > 0 {
                obs.label("dfs move_to");
            }
        }
        dfs.reset(g);
        dfs.move_to(v.id(s));
        let mut seen = vec![false; n];
        let mut k = 0;
        while let Some(x) = dfs.next(g) {
            let l = v.label(x, "Dfs")?;
            ensure!(!seen[l], "C08/dfs-repeats", "Dfs after reset emitted {l} twice");
            seen[l] = true;
            k += 1;
            ensure!(k <= n, "C08/dfs-too-many", "Dfs after reset emitted more than {n} nodes");
        }
        ensure_eq!(seen, reach_s, "C08/dfs-reset-set", "Dfs after reset from {s}");
    }

    // ---- Bfs ----
    {
        let hops = a.hops_from(s);
        let mut seen = vec![false; n];
        let mut last = 0usize;
        let mut bfs = Bfs::new(g, v.id(s));
        let mut k = 0;
        while let Some(x) = bfs.next(g) {
            let l = v.label(x, "Bfs")?;
            ensure!(!seen[l], "C08/bfs-repeats", "Bfs from {s} emitted {l} twice");
            ensure!(reach_s[l], "C08/bfs-unreachable", "Bfs from {s} emitted unreachable node {l}");
            ensure!(
                hops[l] >= last,
                "C08/bfs-order",
                "Bfs from {s} emitted {l} (distance {}) after a node at distance {last}",
                hops[l]
            );
            if k == 0 {
                ensure_eq!(l, s, "C08/bfs-start", "first node of Bfs");
            }
            last = hops[l];
            seen[l] = true;
            k += 1;
            ensure!(k <= n, "C08/bfs-too-many", "Bfs emitted more than {n} nodes");
        }
        ensure_eq!(seen, reach_s, "C08/bfs-set", "Bfs from {s}: emitted set vs reachable set");
    }

    // ---- DfsPostOrder: phases after exhaustion, then reset ----
    {
        let mut po = DfsPostOrder::empty(g);
        let mut done = vec![false; n];
        let mut starts = vec![s];
        starts.extend(c.moves.iter().map(|m| v.live[pick(m.1, v.live.len())]));
        for (pi, &start) in starts.iter().enumerate() {
            po.move_to(v.id(start));
            let allowed: Vec<bool> = done.iter().map(|d| !d).collect();
            let expect = reach_within(&adj, start, &allowed);
            let mut order: Vec<usize> = Vec::new();
            while let Some(x) = po.next(g) {
                let l = v.label(x, "DfsPostOrder")?;
                ensure!(
                    !done[l] && !order.contains(&l),
                    "C08/postorder-repeats",
                    "DfsPostOrder phase {pi} (start {start}) emitted {l} twice"
                );
                order.push(l);
                ensure!(order.len() <= n, "C08/postorder-too-many", "DfsPostOrder emitted more than {n} nodes");
            }
            let mut emitted = vec![false; n];
            for &l in &order {
                emitted[l] = true;
            }
            ensure_eq!(emitted, expect, "C08/postorder-set", "DfsPostOrder phase {pi} (start {start}) emitted set");
            // u -> w with w unable to reach u (inside this phase's subgraph): w before u
            let pos: HashMap<usize, usize> = order.iter().enumerate().map(|(i, &l)| (l, i)).collect();
            for &u in &order {
                for &(w, _) in &adj[u] {
                    if w != u && emitted[w] {
                        let back = reach_within(&adj, w, &allowed)[u];
                        if !back {
                            ensure!(
                                pos[&w] < pos[&u],
                                "C08/postorder-order",
                                "DfsPostOrder (start {start}) emitted {u} before its successor {w}, which cannot reach it back"
                            );
                        }
                    }
                }
            }
            if order.last().is_some() {
                ensure_eq!(*order.last().unwrap(), start, "C08/postorder-root-last", "last node of DfsPostOrder phase");
            }
            for &l in &order {
                done[l] = true;
            }
        }
        po.reset(g);
        po.move_to(v.id(s));
        let mut cnt = 0;
        let mut seen = vec![false; n];
        while let Some(x) = po.next(g) {
            let l = v.label(x, "DfsPostOrder")?;
            seen[l] = true;
            cnt += 1;
            ensure!(cnt <= n, "C08/postorder-too-many", "DfsPostOrder after reset emitted more than {n} nodes");
        }
        ensure_eq!(seen, reach_s, "C08/postorder-reset-set", "DfsPostOrder after reset from {s}");
    }

    // ---- depth_first_search ----
    {
        let mut starts: Vec<usize> = vec![s];
        starts.extend(c.starts.iter().map(|&x| v.live[pick(x, v.live.len())]));
        dfs_events(g, v, &starts, &c.script, 0, obs)?;
        if !c.script.is_empty() {
            // the same script through the `Result<Control<_>, _>` visitor return types
            dfs_events(g, v, &starts, &c.script, 1 + (c.salt % 2), obs)?;
            dfs_events(g, v, &starts, &[], 0, obs)?;
        }
        // a visitor returning `()`
        dfs_events(g, v, &starts, &[], 3, obs)?;
    }
    Ok(())
}

#[derive(Clone, Copy, Debug, PartialEq, Eq)]
enum Ev {
    Discover(usize, usize),
    Tree(usize, usize),
    Back(usize, usize),
    Cross(usize, usize),
    Finish(usize, usize),
}

fn response(script: &[u8], i: usize, is_finish: bool) -> u8 {
    // 0 continue, 1 prune, 2 break
    if script.is_empty() {
        return 0;
    }
    let b = script[i % script.len()];
    if b >= 39 {
        2
    } else if b >= 35 && !is_finish {
        1
    } else {
        0
    }
}

/// Reference recursive DFS producing the expected event stream.  `edge_prune_finishes`
/// selects the reading of `Prune` on an edge event (see DESIGN.md, C08 notes).
struct Sim<'s> {
    nbrs: &'s [Vec<usize>],
    script: &'s [u8],
    edge_prune_finishes: bool,
    disc: Vec<bool>,
    fin: Vec<bool>,
    time: usize,
    out: Vec<Ev>,
    broke: Option<usize>,
}

impl<'s> Sim<'s> {
    fn emit(&mut self, e: Ev) -> u8 {
        let i = self.out.len();
        self.out.push(e);
        let r = response(self.script, i, matches!(e, Ev::Finish(..)));
        if r == 2 {
            self.broke = Some(i);
        }
        r
    }
    fn visit(&mut self, u: usize) {
        if self.disc[u] {
            return;
        }
        self.disc[u] = true;
        let t = self.time;
        self.time += 1;
        let r = self.emit(Ev::Discover(u, t));
        if r == 2 {
            return;
        }
        if r == 0 {
            for i in 0..self.nbrs[u].len() {
                let w = self.nbrs[u][i];
                let r = if !self.disc[w] {
                    let r = self.emit(Ev::Tree(u, w));
                    if r == 0 {
                        self.visit(w);
                        if self.broke.is_some() {
                            return;
                        }
                    }
                    r
                } else if !self.fin[w] {
                    self.emit(Ev::Back(u, w))
                } else {
                    self.emit(Ev::Cross(u, w))
                };
                if r == 2 {
                    return;
                }
                if r == 1 && self.edge_prune_finishes {
                    break;
                }
            }
        }
        self.fin[u] = true;
        let t = self.time;
        self.time += 1;
        self.emit(Ev::Finish(u, t));
    }
}

/// `mode` selects the visitor's return type: 0 `Control<usize>`, 1 `Result<Control<usize>, usize>`
/// answering `Ok(..)` throughout, 2 the same but breaking with `Err(i)`, 3 `()` (empty script only).
fn dfs_events<G>(g: G, v: &View<G::NodeId>, starts: &[usize], script: &[u8], mode: u8, obs: &mut Obs) -> Result<(), Failure>
where
    G: IntoNeighbors + Visitable + Copy,
    G::NodeId: Copy + Eq + Hash + std::fmt::Debug,
{
    let a = v.a;
    let n = a.n;
    // real run
    let mut got: Vec<Ev> = Vec::new();
    let mut bad: Option<Failure> = None;
    let cap = 4 * (n + a.m() * 2 + 4);
    let mut step = |ev: DfsEvent<G::NodeId>| -> (u8, usize) {
        let i = got.len();
        if i > cap {
            bad = Some(Failure { sig: "C08/dfs-event-flood".into(), msg: "event stream longer than 4(n+2m+4)".into() });
            return (2, usize::MAX);
        }
        let lab = |x| v.labels.get(&x).copied();
        let e = match ev {
            DfsEvent::Discover(x, Time(t)) => lab(x).map(|x| Ev::Discover(x, t)),
            DfsEvent::TreeEdge(x, y) => lab(x).zip(lab(y)).map(|(x, y)| Ev::Tree(x, y)),
            DfsEvent::BackEdge(x, y) => lab(x).zip(lab(y)).map(|(x, y)| Ev::Back(x, y)),
            DfsEvent::CrossForwardEdge(x, y) => lab(x).zip(lab(y)).map(|(x, y)| Ev::Cross(x, y)),
            DfsEvent::Finish(x, Time(t)) => lab(x).map(|x| Ev::Finish(x, t)),
        };
        let Some(e) = e else {
            bad = Some(Failure { sig: "C08/unknown-node".into(), msg: format!("event {ev:?} names a node that is not in the graph") });
            return (2, usize::MAX);
        };
        got.push(e);
        (response(script, i, matches!(e, Ev::Finish(..))), i)
    };
    let ids = starts.iter().map(|&s| v.id(s));
    let mut wrong_wrapper: Option<String> = None;
    let ret: Control<usize> = match mode {
        0 => depth_first_search(g, ids, |ev| match step(ev) {
            (0, _) => Control::Continue,
            (1, _) => Control::Prune,
            (_, i) => Control::Break(i),
        }),
        1 => {
            let r: Result<Control<usize>, usize> = depth_first_search(g, ids, |ev| match step(ev) {
                (0, _) => Ok(Control::Continue),
                (1, _) => Ok(Control::Prune),
                (_, i) => Ok(Control::Break(i)),
            });
            match r {
                Ok(c) => c,
                Err(e) => {
                    wrong_wrapper = Some(format!("visitor never returned Err, depth_first_search returned Err({e})"));
                    Control::Continue
                }
            }
        }
        2 => {
            let r: Result<Control<usize>, usize> = depth_first_search(g, ids, |ev| match step(ev) {
                (0, _) => Ok(Control::Continue),
                (1, _) => Ok(Control::Prune),
                (_, i) => Err(i),
            });
            match r {
                Ok(Control::Break(b)) => {
                    wrong_wrapper = Some(format!("visitor never returned Ok(Break), depth_first_search returned Ok(Break({b}))"));
                    Control::Continue
                }
                Ok(c) => c,
                Err(i) => Control::Break(i),
            }
        }
        _ => {
            assert!(script.is_empty());
            depth_first_search(g, ids, |ev| {
                step(ev);
            });
            if bad.is_some() {
                Control::Break(usize::MAX)
            } else {
                Control::Continue
            }
        }
    };
    if let Some(f) = bad {
        return Err(f);
    }
    if let Some(m) = wrong_wrapper {
        return fail("C08/dfsvisit-return", m);
    }
    obs.label(match mode {
        0 => "visitor returns Control",
        1 => "visitor returns Result<Control,_> (Ok only)",
        2 => "visitor returns Result<Control,_> (Err breaks)",
        _ => "visitor returns ()",
    });

    // ---- independent replay of the stream against the abstract graph ----
    {
        let adj = a.out_adj();
        let mut disc = vec![false; n];
        let mut fin = vec![false; n];
        let mut stack: Vec<usize> = Vec::new();
        let mut time = 0usize;
        let mut pending_discover: Option<usize> = None;
        // remaining out-neighbour multiset per node on the stack
        let mut remaining: Vec<Vec<usize>> = adj.iter().map(|l| l.iter().map(|x| x.0).collect()).collect();
        let mut pruned = vec![false; n];
        for (i, e) in got.iter().enumerate() {
            let r = response(script, i, matches!(e, Ev::Finish(..)));
            if let Some(p) = pending_discover.take() {
                ensure!(
                    matches!(e, Ev::Discover(x, _) if *x == p),
                    "C08/dfsvisit-tree-edge-not-followed",
                    "event {i}: TreeEdge to {p} answered Continue must be followed by Discover({p}), got {e:?}"
                );
            }
            match *e {
                Ev::Discover(u, t) => {
                    ensure_eq!(t, time, "C08/dfsvisit-time", "event {i} {e:?}: time");
                    time += 1;
                    ensure!(!disc[u], "C08/dfsvisit-rediscover", "event {i}: {u} discovered twice");
                    disc[u] = true;
                    stack.push(u);
                    if r == 1 {
                        pruned[u] = true;
                    }
                }
                Ev::Tree(u, w) | Ev::Back(u, w) | Ev::Cross(u, w) => {
                    ensure!(stack.last() == Some(&u), "C08/dfsvisit-edge-source", "event {i} {e:?}: source is not the node being expanded ({:?})", stack.last());
                    ensure!(!pruned[u], "C08/dfsvisit-prune-ignored", "event {i} {e:?}: edge reported from a node pruned at its Discover event");
                    let pos = remaining[u].iter().position(|&x| x == w);
                    ensure!(pos.is_some(), "C08/dfsvisit-edge-not-in-graph", "event {i} {e:?}: no (further) edge {u}->{w} in the graph");
                    remaining[u].swap_remove(pos.unwrap());
                    match e {
                        Ev::Tree(..) => {
                            ensure!(!disc[w], "C08/dfsvisit-classification", "event {i} {e:?}: target already discovered");
                            if r == 0 {
                                pending_discover = Some(w);
                            }
                        }
                        Ev::Back(..) => {
                            ensure!(disc[w] && !fin[w], "C08/dfsvisit-classification", "event {i} {e:?}: target is not an unfinished discovered node (discovered={}, finished={})", disc[w], fin[w]);
                            ensure!(stack.contains(&w), "C08/dfsvisit-classification", "event {i} {e:?}: target is not an ancestor");
                        }
                        _ => {
                            ensure!(fin[w], "C08/dfsvisit-classification", "event {i} {e:?}: target is not finished");
                        }
                    }
                    if r == 1 {
                        // either reading of Prune on an edge: remember that the edge list may be cut
                        pruned[u] = false;
                        remaining[u].push(usize::MAX);
                    }
                }
                Ev::Finish(u, t) => {
                    ensure_eq!(t, time, "C08/dfsvisit-time", "event {i} {e:?}: time");
                    time += 1;
                    ensure!(stack.last() == Some(&u), "C08/dfsvisit-nesting", "event {i} {e:?}: not the innermost open node ({:?})", stack.last());
                    stack.pop();
                    ensure!(!fin[u], "C08/dfsvisit-refinish", "event {i}: {u} finished twice");
                    fin[u] = true;
                    let cut_allowed = pruned[u] || remaining[u].contains(&usize::MAX);
                    let left: Vec<usize> = remaining[u].iter().copied().filter(|&x| x != usize::MAX).collect();
                    ensure!(cut_allowed || left.is_empty(), "C08/dfsvisit-missing-edges", "event {i} {e:?}: edges to {left:?} were never reported");
                }
            }
            if r == 2 {
                ensure_eq!(i + 1, got.len(), "C08/dfsvisit-break-continues", "events after a Break at event {i}");
            }
        }
        let broke = (0..got.len()).find(|&i| response(script, i, matches!(got[i], Ev::Finish(..))) == 2);
        match (broke, &ret) {
            (Some(i), Control::Break(b)) => ensure_eq!(*b, i, "C08/dfsvisit-break-value", "returned Break value"),
            (None, Control::Continue) => {
                ensure!(stack.is_empty(), "C08/dfsvisit-nesting", "search ended with open nodes {stack:?}");
                for &s in starts {
                    ensure!(disc[s], "C08/dfsvisit-start-skipped", "start node {s} never discovered");
                }
                if script.is_empty() {
                    let all = vec![true; n];
                    let mut expect = vec![false; n];
                    for &s in starts {
                        for (i, r) in reach_within(&adj, s, &all).into_iter().enumerate() {
                            expect[i] |= r;
                        }
                    }
                    ensure_eq!(disc, expect, "C08/dfsvisit-reach-set", "discovered set vs nodes reachable from the starts");
                    ensure_eq!(fin, expect, "C08/dfsvisit-reach-set", "finished set vs nodes reachable from the starts");
                }
            }
            (b, r) => {
                return fail("C08/dfsvisit-return", format!("script broke at {b:?} but depth_first_search returned {r:?}"));
            }
        }
    }

    // ---- exact comparison with the reference recursion (neighbour order taken from the graph) ----
    let nbrs: Vec<Vec<usize>> = (0..n)
        .map(|l| match v.ids[l] {
            Some(id) => g.neighbors(id).filter_map(|x| v.labels.get(&x).copied()).collect(),
            None => Vec::new(),
        })
        .collect();
    let mut ok = false;
    let mut first: Option<Vec<Ev>> = None;
    for reading in [false, true] {
        let mut sim = Sim { nbrs: &nbrs, script, edge_prune_finishes: reading, disc: vec![false; n], fin: vec![false; n], time: 0, out: Vec::new(), broke: None };
        for &s in starts {
            sim.visit(s);
            if sim.broke.is_some() {
                break;
            }
        }
        if sim.out == got {
            ok = true;
            break;
        }
        if first.is_none() {
            first = Some(sim.out);
        }
    }
    if !ok {
        let exp = first.unwrap();
        let i = (0..got.len().max(exp.len())).find(|&i| got.get(i) != exp.get(i)).unwrap_or(0);
        return fail(
            "C08/dfsvisit-stream",
            format!("event stream differs from the reference recursion at event {i}: got {:?}, expected {:?} (starts {starts:?})", got.get(i), exp.get(i)),
        );
    }
    let has_cross = got.iter().any(|e| matches!(e, Ev::Cross(..)));
    obs.label_if(has_cross, "cross/forward edge");
    obs.label_if(got.iter().any(|e| matches!(e, Ev::Back(..))), "back edge");
    let pr = (0..got.len()).any(|i| response(script, i, matches!(got[i], Ev::Finish(..))) == 1);
    obs.label_if(pr, "prune used");
    let broke_at = (0..got.len()).find(|&i| response(script, i, matches!(got[i], Ev::Finish(..))) == 2);
    ensure_eq!(ret.break_value(), broke_at, "C08/dfsvisit-break-value", "Control::break_value() of the returned control");
    obs.label_if(matches!(ret, Control::Break(_)), "break used");
    if has_cross || pr || matches!(ret, Control::Break(_)) {
        obs.nontrivial = true;
    }
    Ok(())
}

fn check_topo<G>(g: G, v: &View<G::NodeId>, c: &Case, obs: &mut Obs) -> Result<(), Failure>
where
    G: IntoNeighborsDirected + IntoNodeIdentifiers + Visitable + Copy,
    G::NodeId: Copy + Eq + Hash + std::fmt::Debug,
{
    let a = v.a;
    if !a.directed {
        return Ok(());
    }
    let n = a.n;
    let inn = a.in_adj();
    let live: Vec<bool> = (0..n).map(|l| v.live.contains(&l)).collect();
    // fixpoint: initial nodes, then nodes all of whose (>=1) predecessors are in the set
    let fix = |init: &dyn Fn(usize) -> bool| -> Vec<bool> {
        let mut s: Vec<bool> = (0..n).map(|l| live[l] && inn[l].is_empty() && init(l)).collect();
        loop {
            let mut ch = false;
            for l in 0..n {
                if live[l] && !s[l] && !inn[l].is_empty() && inn[l].iter().all(|&(p, _)| s[p]) {
                    s[l] = true;
                    ch = true;
                }
            }
            if !ch {
                return s;
            }
        }
    };
    let expect_all = fix(&|_| true);
    // the property's wording: nodes neither on nor downstream of a cycle
    let rp = a.reach_plus();
    let r = a.reach();
    for l in 0..n {
        if live[l] {
            let tainted = (0..n).any(|x| rp[x][x] && r[x][l]);
            ensure_eq!(expect_all[l], !tainted, "C08/oracle-self-check", "fixpoint vs cycle characterisation for {l}");
        }
    }
    let run = |mut topo: Topo<G::NodeId, G::Map>, expect: &[bool], what: &str| -> Result<usize, Failure> {
        let mut pos = vec![usize::MAX; n];
        let mut k = 0;
        while let Some(x) = topo.next(g) {
            let l = v.label(x, "Topo")?;
            ensure!(pos[l] == usize::MAX, "C08/topo-repeats", "{what} emitted {l} twice");
            ensure!(expect[l], "C08/topo-cyclic-node", "{what} emitted {l}, which must not be emitted (on/downstream of a cycle, or not below the initials)");
            for &(p, _) in &inn[l] {
                ensure!(pos[p] != usize::MAX, "C08/topo-order", "{what} emitted {l} before its predecessor {p}");
            }
            pos[l] = k;
            k += 1;
            ensure!(k <= n, "C08/topo-too-many", "{what} emitted more than {n} nodes");
        }
        for l in 0..n {
            ensure!(!expect[l] || pos[l] != usize::MAX, "C08/topo-missing", "{what} never emitted {l}");
        }
        Ok(k)
    };
    let k = run(Topo::new(g), &expect_all, "Topo::new")?;
    let acyclic = !a.has_directed_cycle();
    ensure_eq!(k == v.live.len(), acyclic, "C08/topo-complete-iff-acyclic", "Topo emitted every node");
    // reset
    let mut t = Topo::new(g);
    let _ = t.next(g);
    let _ = t.next(g);
    t.reset(g);
    run(t, &expect_all, "Topo after reset")?;
    // with_initials
    if !c.starts.is_empty() && !v.live.is_empty() {
        let inits: Vec<usize> = c.starts.iter().map(|&x| v.live[pick(x, v.live.len())]).collect();
        let expect = fix(&|l| inits.contains(&l));
        run(Topo::with_initials(g, inits.iter().map(|&l| v.id(l))), &expect, "Topo::with_initials")?;
        obs.label("topo with_initials");
    }
    let some_cyclic = (0..n).any(|x| rp[x][x]);
    if some_cyclic && k > 0 {
        obs.label("topo: cyclic part plus acyclic part");
        obs.nontrivial = true;
    }
    Ok(())
}

fn simplified(a: &AGraph) -> AGraph {
    let mut out = AGraph { directed: a.directed, n: a.n, edges: Vec::new() };
    for &(u, w, x) in &a.edges {
        let dup = out.edges.iter().any(|&(p, q, _)| (p == u && q == w) || (!a.directed && p == w && q == u));
        if !dup {
            out.edges.push((u, w, x));
        }
    }
    out
}

pub fn run(c: &Case) -> Outcome {
    let a = c.g.build(&OPTS);
    let n = a.n;
    let mut obs = Obs::default();
    let all: Vec<usize> = (0..n).collect();
    macro_rules! both {
        ($g:expr, $view:expr) => {{
            let view = $view;
            check_basic($g, &view, c, &mut obs)?;
            check_topo($g, &view, c, &mut obs)?;
        }};
    }
    let enc = c.enc % 12;
    match (enc, a.directed) {
        (0, true) => {
            let g: Graph<usize, i32, Directed, u32> = to_graph(&a, |w| w);
            both!(&g, View::new(&a, all, (0..n).map(|i| Some(NodeIndex::new(i))).collect()));
            obs.label("Graph directed");
        }
        (0, false) => {
            let g: Graph<usize, i32, Undirected, u8> = to_graph(&a, |w| w);
            both!(&g, View::new(&a, all, (0..n).map(|i| Some(NodeIndex::new(i))).collect()));
            obs.label("Graph undirected");
        }
        (1, true) => {
            let (g, map) = to_stable_holes::<i32, Directed, u32>(&a, c.salt as u64 + 1, |w| w);
            both!(&g, View::new(&a, all, map.into_iter().map(Some).collect()));
            obs.label("StableGraph directed, holes");
        }
        (1, false) => {
            let (g, map) = to_stable_holes::<i32, Undirected, u16>(&a, c.salt as u64 + 1, |w| w);
            both!(&g, View::new(&a, all, map.into_iter().map(Some).collect()));
            obs.label("StableGraph undirected, holes");
        }
        (2, d) => {
            let a = simplified(&a);
            if d {
                let g = to_graphmap::<i32, Directed>(&a, |w| w);
                both!(&g, View::new(&a, all, (0..n).map(|i| Some(gm_key(i))).collect()));
            } else {
                let g = to_graphmap::<i32, Undirected>(&a, |w| w);
                both!(&g, View::new(&a, all, (0..n).map(|i| Some(gm_key(i))).collect()));
            }
            obs.label("GraphMap");
        }
        (3, true) => {
            let g: Graph<usize, i32, Directed, u32> = to_graph(&a, |w| w);
            let rev = AGraph { directed: true, n, edges: a.edges.iter().map(|&(u, w, x)| (w, u, x)).collect() };
            both!(Reversed(&g), View::new(&rev, all, (0..n).map(|i| Some(NodeIndex::new(i))).collect()));
            obs.label("Reversed<&Graph>");
        }
        (4, d) => {
            // node-induced subgraph
            let keep: Vec<bool> = (0..n).map(|i| (c.filter >> (i % 16)) & 1 == 1).collect();
            let sub = AGraph { directed: d, n, edges: a.edges.iter().copied().filter(|&(u, w, _)| keep[u] && keep[w]).collect() };
            let live: Vec<usize> = (0..n).filter(|&i| keep[i]).collect();
            let ids = (0..n).map(|i| if keep[i] { Some(NodeIndex::new(i)) } else { None }).collect();
            if d {
                let g: Graph<usize, i32, Directed, u32> = to_graph(&a, |w| w);
                let f = NodeFiltered::from_fn(&g, |x: NodeIndex<u32>| keep[x.index()]);
                both!(&f, View::new(&sub, live, ids));
            } else {
                let g: Graph<usize, i32, Undirected, u32> = to_graph(&a, |w| w);
                let f = NodeFiltered::from_fn(&g, |x: NodeIndex<u32>| keep[x.index()]);
                both!(&f, View::new(&sub, live, ids));
            }
            obs.label("NodeFiltered<&Graph>");
        }
        (5, d) => {
            let a = simplified(&a);
            if d {
                let g = to_csr::<i32, Directed>(&a, |w| w);
                check_basic(&g, &View::new(&a, all, (0..n).map(|i| Some(i as u32)).collect()), c, &mut obs)?;
            } else {
                let g = to_csr::<i32, Undirected>(&a, |w| w);
                check_basic(&g, &View::new(&a, all, (0..n).map(|i| Some(i as u32)).collect()), c, &mut obs)?;
            }
            obs.label("Csr");
        }
        (6, true) => {
            let mut g: List<i32, u32> = List::new();
            for _ in 0..n {
                g.add_node();
            }
            for &(u, w, x) in &a.edges {
                g.add_edge(u as u32, w as u32, x);
            }
            check_basic(&g, &View::new(&a, all, (0..n).map(|i| Some(i as u32)).collect()), c, &mut obs)?;
            obs.label("adj::List");
        }
        (7, d) => {
            let a = simplified(&a);
            if d {
                let (g, map) = to_matrix_holes::<i32, Directed>(&a, c.salt as u64 + 1, |w| w);
                both!(&g, View::new(&a, all, map.into_iter().map(Some).collect()));
            } else {
                let (g, map) = to_matrix_holes::<i32, Undirected>(&a, c.salt as u64 + 1, |w| w);
                check_basic(&g, &View::new(&a, all, map.into_iter().map(Some).collect()), c, &mut obs)?;
            }
            obs.label("MatrixGraph, holes");
        }
        (9, d) => {
            // edge-restricted view: edge i of the abstract graph is edge index i of the Graph
            let keep_e = |i: usize| (c.filter >> (i % 16)) & 1 == 1;
            let sub = AGraph { directed: d, n, edges: a.edges.iter().copied().enumerate().filter(|&(i, _)| keep_e(i)).map(|(_, e)| e).collect() };
            let ids = (0..n).map(|i| Some(NodeIndex::new(i))).collect();
            if d {
                let g: Graph<usize, i32, Directed, u32> = to_graph(&a, |w| w);
                let f = EdgeFiltered::from_fn(&g, |e| keep_e(e.id().index()));
                both!(&f, View::new(&sub, all, ids));
            } else {
                let g: Graph<usize, i32, Undirected, u32> = to_graph(&a, |w| w);
                let f = EdgeFiltered::from_fn(&g, |e| keep_e(e.id().index()));
                check_basic(&f, &View::new(&sub, all, ids), c, &mut obs)?;
            }
            obs.label("EdgeFiltered<&Graph>");
        }
        (10, _) => {
            // a directed graph seen through UndirectedAdaptor (loops left out: the adaptor lists a
            // loop from both of its halves, an undirected graph lists it once)
            let sym = AGraph { directed: false, n, edges: a.edges.iter().copied().filter(|e| e.0 != e.1).collect() };
            let dir = AGraph { directed: true, n, edges: sym.edges.clone() };
            let (g, map) = to_stable_holes::<i32, Directed, u32>(&dir, c.salt as u64 + 3, |w| w);
            check_basic(UndirectedAdaptor(&g), &View::new(&sym, all, map.into_iter().map(Some).collect()), c, &mut obs)?;
            obs.label("UndirectedAdaptor<&StableGraph>");
        }
        (11, true) => {
            // depth 2: Reversed over a node-induced subgraph of a StableGraph with vacancies
            let keep: Vec<bool> = (0..n).map(|i| (c.filter >> (i % 16)) & 1 == 1).collect();
            let sub = AGraph { directed: true, n, edges: a.edges.iter().copied().filter(|&(u, w, _)| keep[u] && keep[w]).map(|(u, w, x)| (w, u, x)).collect() };
            let live: Vec<usize> = (0..n).filter(|&i| keep[i]).collect();
            let (g, map) = to_stable_holes::<i32, Directed, u32>(&a, c.salt as u64 + 11, |w| w);
            let kept: std::collections::HashSet<NodeIndex<u32>> = (0..n).filter(|&i| keep[i]).map(|i| map[i]).collect();
            let ids = (0..n).map(|i| if keep[i] { Some(map[i]) } else { None }).collect();
            let f = NodeFiltered::from_fn(&g, |x: NodeIndex<u32>| kept.contains(&x));
            both!(Reversed(&f), View::new(&sub, live, ids));
            obs.label("Reversed<&NodeFiltered<&StableGraph>>");
        }
        (_, true) => {
            let (g, map) = to_stable_holes::<i32, Directed, u8>(&a, c.salt as u64 + 7, |w| w);
            let rev = AGraph { directed: true, n, edges: a.edges.iter().map(|&(u, w, x)| (w, u, x)).collect() };
            both!(Reversed(&g), View::new(&rev, all, map.into_iter().map(Some).collect()));
            obs.label("Reversed<&StableGraph>");
        }
        (_, false) => {
            let g: Graph<usize, i32, Undirected, u16> = to_graph(&a, |w| w);
            both!(&g, View::new(&a, all, (0..n).map(|i| Some(NodeIndex::new(i))).collect()));
            obs.label("Graph undirected");
        }
    }
    // the stated non-triviality rule: an unreachable part together with a cross/forward edge,
    // a cyclic plus an acyclic part (Topo), or a script that prunes / breaks -- set by the checkers.
    Ok(obs)
}

/// scope of the bounded-exhaustive sub-check: every labelled digraph on 1..=4 nodes and every
/// labelled undirected graph on 1..=5 nodes (6 in the thorough tier), loops included
fn scope(tier: Tier) -> (usize, usize) {
    if tier == Tier::Quick {
        (4, 5)
    } else {
        (4, 6)
    }
}
const ENUM_P: u64 = 12 * 4 * 3;
fn enum_count(tier: Tier) -> u64 {
    let (d, u) = scope(tier);
    small_graph_count(d, u) * ENUM_P
}
fn enum_make(tier: Tier, i: u64) -> Case {
    let (d, u) = scope(tier);
    let (dir, n, mask) = small_graph(i / ENUM_P, d, u).expect("index within the scope");
    let p = i % ENUM_P;
    let script: Vec<u8> = match p / 48 {
        0 => Vec::new(),
        // prune / break patterns derived from the index
        1 => vec![0, 36, 0, 0, 37, 0, 35],
        _ => vec![0, 0, (i % 7) as u8, 36, 0, 40, 0],
    };
    Case {
        g: raw_explicit(dir, n, mask, 0),
        enc: (p % 12) as u8,
        salt: (i % 251) as u8,
        start: sel_for((p / 12) as usize % 4 % n, n),
        starts: if i % 3 == 0 { vec![sel_for(n - 1, n)] } else { Vec::new() },
        script,
        moves: if i % 5 == 0 { vec![(1, sel_for((i % 4) as usize % n, n))] } else { Vec::new() },
        filter: (0x9d3b_u16).rotate_left((i % 16) as u32),
    }
}

/// libFuzzer entry / from-bytes generator: bring a decoded case into the domain of `strategy`
pub fn fuzz_domain(c: &mut Case) -> bool {
    c.g.sanitize(1, 14, 40, None);
    c.starts.truncate(3);
    c.script.truncate(23);
    c.moves.truncate(3);
    true
}
pub fn bytes_strategy(_tier: Tier) -> BoxedStrategy<Case> {
    decoded_strategy(fuzz_domain)
}

pub fn property() -> Property {
    Property {
        id: "C08",
        rule: "random multigraphs with self-loops (1..=10 nodes quick, 8 shape classes) stored as Graph / StableGraph+MatrixGraph with vacancies / GraphMap / Csr / adj::List / Reversed / NodeFiltered / EdgeFiltered / UndirectedAdaptor over a StableGraph with vacancies / Reversed<NodeFiltered<StableGraph>>; Dfs/Bfs/DfsPostOrder (with move_to phases and reset) and Topo (new / reset / with_initials) checked against naive reachability, hop distances and a predecessor fixpoint; depth_first_search event streams under generated Continue/Prune/Break scripts (visitor return types Control<B>, Result<Control<B>,E> with Ok-only and Err-as-break answers, and ()) checked by an independent stream replayer and compared exactly with a reference recursion; non-trivial = the run had a cross/forward edge, a prune or break, or (Topo) a cyclic part next to an emitted acyclic part; distinct by fingerprint of the generated case; bounded-exhaustive sub-check: every labelled digraph on 1..=4 nodes and undirected graph on 1..=5 nodes (6 thorough), loops included, x 12 encodings x start nodes x 3 control scripts",
        assumptions: &[
            "Prune answered to an edge event: both the documented reading (go to Finish) and the implemented one (skip only that edge) are accepted",
            "DfsPostOrder::move_to is only exercised after the previous phase ran to exhaustion",
        ],
        both_profiles: false,
        subs: vec![sub_fuzz("traversal/walkers+dfsvisit", 3_000_000, 60_000_000, strategy, run, fuzz_domain), sub("traversal/walkers+dfsvisit-from-bytes", 600_000, 10_000_000, bytes_strategy, run), sub_enum("traversal/all-small-graphs", enum_count, enum_make, run)],
    }
}
