//! C05 — Csr and adj::List, the append-only graphs, report exactly what was inserted.

use crate::engine::*;
use crate::util::{pick, sorted};
use petgraph::adj::{EdgeIndex as LEdge, List};
use petgraph::csr::Csr;
use petgraph::data::{Build, DataMap, DataMapMut};
use petgraph::graph::IndexType;
use petgraph::visit::{EdgeRef, IntoEdgeReferences, IntoEdges, IntoNeighbors, IntoNodeReferences, NodeCount, NodeRef};
use petgraph::{Directed, EdgeType, Undirected};
use proptest::prelude::*;
use serde::{Deserialize, Serialize};
use std::collections::BTreeMap;

macro_rules! ck {
    ($cond:expr, $sig:expr, $($arg:tt)*) => {
        if !($cond) {
            return Err(Failure { sig: format!("C05/{}", $sig), msg: format!($($arg)*) });
        }
    };
}

// ------------------------------------------------------------------ Csr histories

#[derive(Debug, Clone, Serialize, Deserialize)]
pub enum COp {
    AddNode,
    AddEdge(u16, u16, bool),
    /// many edges out of one hub node, targets in generated order (row grows through the 32 cutoff)
    HubFill(u16, u8, Vec<u16>),
    OutOfRange(u16, u16, bool),
    ClearEdges,
    SetNodeWeight(u16),
}

#[derive(Debug, Clone, Serialize, Deserialize)]
pub struct CCase {
    pub directed: bool,
    pub width: u8,
    /// initial nodes via with_nodes(n0)
    pub n0: u8,
    pub ops: Vec<COp>,
}

pub fn c_strategy(tier: Tier) -> BoxedStrategy<CCase> {
    let maxops = if tier == Tier::Quick { 30 } else { 90 };
    let s = any::<u16>;
    let op = prop_oneof![
        3 => Just(COp::AddNode),
        16 => (s(), s(), any::<bool>()).prop_map(|(a, b, t)| COp::AddEdge(a, b, t)),
        5 => (s(), 20u8..60, proptest::collection::vec(s(), 30..60)).prop_map(|(h, k, v)| COp::HubFill(h, k, v)),
        2 => (s(), s(), any::<bool>()).prop_map(|(a, b, t)| COp::OutOfRange(a, b, t)),
        1 => Just(COp::ClearEdges),
        1 => s().prop_map(COp::SetNodeWeight),
    ];
    (any::<bool>(), 0u8..4, prop_oneof![3 => 0u8..12, 2 => 34u8..80], proptest::collection::vec(op, 0..=maxops))
        .prop_map(|(directed, width, n0, ops)| CCase { directed, width, n0, ops })
        .boxed()
}

#[derive(Clone, PartialEq, Debug)]
struct CModel {
    directed: bool,
    nodes: Vec<i32>,
    /// row -> (target -> weight); undirected edges are stored in both rows
    rows: Vec<BTreeMap<usize, i32>>,
    edges: usize,
}

fn c_observe<Ty: EdgeType, Ix: IndexType>(g: &Csr<i32, i32, Ty, Ix>, m: &CModel, at: &str, rows_to_check: Option<&[usize]>) -> Result<(), Failure> {
    let n = m.nodes.len();
    ck!(g.node_count() == n, "csr-node_count", "{at}: node_count() = {}, expected {n}", g.node_count());
    ck!(g.edge_count() == m.edges, "csr-edge_count", "{at}: edge_count() = {}, expected {}", g.edge_count(), m.edges);
    ck!(g.is_directed() == m.directed, "csr-is_directed", "{at}: is_directed()");
    let all: Vec<usize> = (0..n).collect();
    for &a in rows_to_check.unwrap_or(&all) {
        let ia = Ix::new(a);
        let exp_t: Vec<usize> = m.rows[a].keys().copied().collect();
        let got_t: Vec<usize> = g.neighbors_slice(ia).iter().map(|x| x.index()).collect();
        ck!(got_t.windows(2).all(|w| w[0] < w[1]), "csr-row-not-ascending", "{at}: neighbors_slice({a}) = {got_t:?} is not strictly ascending");
        ck!(got_t == exp_t, "csr-neighbors_slice", "{at}: neighbors_slice({a}) = {got_t:?}, expected {exp_t:?}");
        let exp_w: Vec<i32> = m.rows[a].values().copied().collect();
        ck!(g.edges_slice(ia) == &exp_w[..], "csr-edges_slice", "{at}: edges_slice({a}) = {:?}, expected {exp_w:?}", g.edges_slice(ia));
        ck!(g.out_degree(ia) == exp_t.len(), "csr-out_degree", "{at}: out_degree({a}) = {}, expected {}", g.out_degree(ia), exp_t.len());
        let es: Vec<(usize, usize, i32)> = g.edges(ia).map(|e| (e.source().index(), e.target().index(), *e.weight())).collect();
        ck!(es == m.rows[a].iter().map(|(t, w)| (a, *t, *w)).collect::<Vec<_>>(), "csr-edges", "{at}: edges({a}) = {es:?}");
        let ns: Vec<usize> = IntoNeighbors::neighbors(g, ia).map(|x| x.index()).collect();
        ck!(ns == exp_t, "csr-neighbors", "{at}: neighbors({a}) = {ns:?}, expected {exp_t:?}");
        // probes below, inside and above the row's range, plus every node for short graphs
        let mut probes: Vec<usize> = vec![0, n - 1, a];
        probes.extend(exp_t.iter().flat_map(|&t| [t.saturating_sub(1), t, (t + 1).min(n - 1)]));
        if n <= 16 {
            probes.extend(0..n);
        }
        for b in probes {
            ck!(g.contains_edge(ia, Ix::new(b)) == m.rows[a].contains_key(&b), "csr-contains_edge", "{at}: contains_edge({a},{b}) = {} (row {exp_t:?})", g.contains_edge(ia, Ix::new(b)));
        }
        ck!(g[ia] == m.nodes[a], "csr-node-weight", "{at}: node weight of {a}");
    }
    if rows_to_check.is_none() {
        // whole-graph iterators: each edge once (undirected: once, either orientation)
        let mut er: Vec<(usize, usize, i32)> = Vec::new();
        for e in g.edge_references().take(2 * m.edges + n + 4) {
            let (s, t) = (e.source().index(), e.target().index());
            er.push(if m.directed || s <= t { (s, t, *e.weight()) } else { (t, s, *e.weight()) });
        }
        let mut exp: Vec<(usize, usize, i32)> = Vec::new();
        for (a, row) in m.rows.iter().enumerate() {
            for (&t, &w) in row {
                if m.directed || a <= t {
                    exp.push((a, t, w));
                }
            }
        }
        ck!(sorted(&er) == sorted(&exp), "csr-edge_references", "{at}: edge_references() = {er:?}, expected {exp:?}");
        let nr: Vec<(usize, i32)> = g.node_references().map(|r| (r.id().index(), *r.weight())).collect();
        ck!(nr == m.nodes.iter().copied().enumerate().collect::<Vec<_>>(), "csr-node_references", "{at}: node_references()");
    }
    Ok(())
}

fn c_run_cfg<Ty: EdgeType, Ix: IndexType>(c: &CCase) -> Outcome {
    let n0 = c.n0 as usize;
    let mut g: Csr<i32, i32, Ty, Ix> = Csr::with_nodes(n0);
    let mut m = CModel { directed: Ty::is_directed(), nodes: vec![0; n0], rows: vec![BTreeMap::new(); n0], edges: 0 };
    let mut counter = 0i32;
    let mut obs = Obs::default();
    let mut long_row_probed = false;
    c_observe(&g, &m, "initially", None)?;
    macro_rules! add {
        ($a:expr, $b:expr, $try:expr, $at:expr) => {{
            let (a, b): (usize, usize) = ($a, $b);
            counter += 1;
            let w = counter;
            let fresh = !m.rows[a].contains_key(&b);
            let long = m.rows[a].len() >= 32;
            let r = if $try { g.try_add_edge(Ix::new(a), Ix::new(b), w).map_err(|e| format!("{e:?}")) } else { guarded(|| g.add_edge(Ix::new(a), Ix::new(b), w)) };
            match r {
                Ok(added) => ck!(added == fresh, "csr-add_edge-result", "{}: add_edge({a},{b}) returned {added}, edge was {}", $at, if fresh { "absent" } else { "present" }),
                Err(e) => return fail("C05/csr-add_edge-fails", format!("{}: add_edge({a},{b}) in range failed: {e}", $at)),
            }
            if fresh {
                m.rows[a].insert(b, w);
                if !m.directed && a != b {
                    m.rows[b].insert(a, w);
                }
                m.edges += 1;
            }
            if long {
                long_row_probed = true;
            }
            c_observe(&g, &m, &$at, Some(&[a, b]))?;
        }};
    }
    for (step, op) in c.ops.iter().enumerate() {
        let n = m.nodes.len();
        let at = format!("after step {step} {}", match op { COp::HubFill(h, k, _) => format!("HubFill({h},{k},..)"), o => format!("{o:?}") });
        match op {
            COp::AddNode => {
                if n >= 200 {
                    continue;
                }
                counter += 1;
                let i = g.add_node(counter);
                ck!(i.index() == n, "csr-add_node-index", "{at}: add_node returned {}, expected {n}", i.index());
                m.nodes.push(counter);
                m.rows.push(BTreeMap::new());
            }
            COp::AddEdge(a, b, t) => {
                if n == 0 {
                    continue;
                }
                add!(pick(*a, n), pick(*b, n), *t, at);
            }
            COp::HubFill(h, k, targets) => {
                if n < 2 {
                    continue;
                }
                let hub = pick(*h, n);
                for (j, t) in targets.iter().take(*k as usize).enumerate() {
                    add!(hub, pick(*t, n), j % 3 == 0, at);
                }
                obs.label("hub fill");
            }
            COp::OutOfRange(a, b, t) => {
                let (a, b) = (pick(*a, n + 3), n + pick(*b, 3));
                let (a, b) = if a % 2 == 0 { (a, b) } else { (b, a) };
                if a.max(b) > <Ix as IndexType>::max().index() {
                    continue;
                }
                let before = g.clone();
                if *t {
                    let r = g.try_add_edge(Ix::new(a), Ix::new(b), -1);
                    ck!(r.is_err(), "csr-try_add_edge-out-of-range", "{at}: try_add_edge({a},{b}) with {n} nodes returned {r:?}");
                } else {
                    let r = guarded(|| g.add_edge(Ix::new(a), Ix::new(b), -1));
                    ck!(r.is_err(), "csr-add_edge-out-of-range-no-panic", "{at}: add_edge({a},{b}) with {n} nodes returned {r:?}");
                }
                let _ = before;
                obs.label("out-of-range endpoint");
            }
            COp::ClearEdges => {
                g.clear_edges();
                for r in m.rows.iter_mut() {
                    r.clear();
                }
                m.edges = 0;
            }
            COp::SetNodeWeight(a) => {
                if n == 0 {
                    continue;
                }
                let a = pick(*a, n);
                g[Ix::new(a)] += 7;
                m.nodes[a] += 7;
            }
        }
        if m.nodes.len() <= 14 || step % 6 == 5 || step + 1 == c.ops.len() {
            c_observe(&g, &m, &at, None)?;
        }
    }
    c_observe(&g, &m, "at the end", None)?;
    // clone is observably identical
    c_observe(&g.clone(), &m, "clone at the end", None)?;
    let long_rows = m.rows.iter().filter(|r| r.len() >= 32).count();
    obs.nontrivial = long_rows >= 1 && long_row_probed;
    obs.label_if(long_rows >= 1, "row with >= 32 entries");
    obs.label_if(m.rows.iter().any(|r| !r.is_empty() && r.len() < 32), "row below the cutoff");
    Ok(obs)
}

pub fn c_run(c: &CCase) -> Outcome {
    match (c.directed, c.width % 4) {
        (true, 0) => c_run_cfg::<Directed, u8>(c),
        (true, 1) => c_run_cfg::<Directed, u16>(c),
        (true, 2) => c_run_cfg::<Directed, u32>(c),
        (true, _) => c_run_cfg::<Directed, usize>(c),
        (false, 0) => c_run_cfg::<Undirected, u8>(c),
        (false, 1) => c_run_cfg::<Undirected, u16>(c),
        (false, 2) => c_run_cfg::<Undirected, u32>(c),
        (false, _) => c_run_cfg::<Undirected, usize>(c),
    }
}

// ------------------------------------------------------------------ Csr::from_sorted_edges

#[derive(Debug, Clone, Serialize, Deserialize)]
pub struct SCase {
    pub n: u8,
    pub edges: Vec<(u16, u16)>,
    /// 0 none, 1 swap two adjacent entries, 2 duplicate one entry, 3 decrement a target, 4 shuffle-free raw order
    pub perturb: u8,
    pub sel: u16,
}

pub fn s_strategy(_tier: Tier) -> BoxedStrategy<SCase> {
    (1u8..50, proptest::collection::vec((any::<u16>(), any::<u16>()), 0..70), 0u8..5, any::<u16>())
        .prop_map(|(n, edges, perturb, sel)| SCase { n, edges, perturb, sel })
        .boxed()
}

pub fn s_run(c: &SCase) -> Outcome {
    let n = c.n as usize;
    let mut list: Vec<(u32, u32, i32)> = c.edges.iter().enumerate().map(|(i, &(a, b))| (pick(a, n) as u32, pick(b, n) as u32, i as i32 + 1)).collect();
    if c.perturb != 4 {
        list.sort_by_key(|e| (e.0, e.1));
        list.dedup_by_key(|e| (e.0, e.1));
    }
    if !list.is_empty() {
        let k = pick(c.sel, list.len());
        match c.perturb {
            1 if k + 1 < list.len() => list.swap(k, k + 1),
            2 => {
                let e = list[k];
                list.insert(k, e);
            }
            3 => list[k].1 = list[k].1.saturating_sub(1 + (c.sel as u32 % 3)),
            _ => {}
        }
    }
    let strictly = list.windows(2).all(|w| (w[0].0, w[0].1) < (w[1].0, w[1].1));
    let res = Csr::<(), i32, Directed, u32>::from_sorted_edges(&list);
    let mut obs = Obs::default();
    match res {
        Err(_) => {
            ck!(!strictly, "from_sorted_edges-rejects-sorted", "from_sorted_edges rejected the strictly sorted list {list:?}");
            obs.label("rejected");
            obs.nontrivial = list.len() >= 3;
        }
        Ok(g) => {
            ck!(strictly, "from_sorted_edges-accepts-unsorted", "from_sorted_edges accepted {list:?}, which is not strictly sorted / duplicate-free");
            // equals edge-by-edge construction
            let nodes = list.iter().map(|e| e.0.max(e.1) as usize + 1).max().unwrap_or(0);
            ck!(g.node_count() == nodes, "from_sorted_edges-node_count", "node_count() = {}, expected {nodes}", g.node_count());
            let mut h: Csr<(), i32, Directed, u32> = Csr::with_nodes(nodes);
            for &(a, b, w) in list.iter().rev() {
                ck!(h.add_edge(a, b, w), "csr-add_edge-result", "edge-by-edge construction: add_edge({a},{b}) returned false");
            }
            ck!(g.edge_count() == list.len() && h.edge_count() == list.len(), "from_sorted_edges-edge_count", "edge_count() = {} / {}, expected {}", g.edge_count(), h.edge_count(), list.len());
            for a in 0..nodes as u32 {
                ck!(g.neighbors_slice(a) == h.neighbors_slice(a) && g.edges_slice(a) == h.edges_slice(a), "from_sorted_edges-differs", "row {a}: {:?}/{:?} vs edge-by-edge {:?}/{:?}", g.neighbors_slice(a), g.edges_slice(a), h.neighbors_slice(a), h.edges_slice(a));
                let exp: Vec<u32> = list.iter().filter(|e| e.0 == a).map(|e| e.1).collect();
                ck!(g.neighbors_slice(a) == &exp[..], "from_sorted_edges-row", "row {a} = {:?}, expected {exp:?}", g.neighbors_slice(a));
            }
            obs.label("accepted");
            obs.nontrivial = list.len() >= 3;
        }
    }
    Ok(obs)
}

// ------------------------------------------------------------------ adj::List histories

#[derive(Debug, Clone, Serialize, Deserialize)]
pub enum LOp {
    AddNode(u8, Vec<u16>),
    AddEdge(u16, u16),
    UpdateEdge(u16, u16),
    BuildAddEdge(u16, u16),
    OutOfRange(u16, u16),
    SetWeight(u16),
    Clear,
}

#[derive(Debug, Clone, Serialize, Deserialize)]
pub struct LCase {
    pub width: u8,
    pub ops: Vec<LOp>,
}

pub fn l_strategy(tier: Tier) -> BoxedStrategy<LCase> {
    let maxops = if tier == Tier::Quick { 40 } else { 120 };
    let s = any::<u16>;
    let op = prop_oneof![
        6 => (0u8..3, proptest::collection::vec(s(), 0..4)).prop_map(|(k, v)| LOp::AddNode(k, v)),
        16 => (s(), s()).prop_map(|(a, b)| LOp::AddEdge(a, b)),
        8 => (s(), s()).prop_map(|(a, b)| LOp::UpdateEdge(a, b)),
        3 => (s(), s()).prop_map(|(a, b)| LOp::BuildAddEdge(a, b)),
        2 => (s(), s()).prop_map(|(a, b)| LOp::OutOfRange(a, b)),
        3 => s().prop_map(LOp::SetWeight),
        1 => Just(LOp::Clear),
    ];
    (0u8..4, proptest::collection::vec(op, 0..=maxops)).prop_map(|(width, ops)| LCase { width, ops }).boxed()
}

fn l_observe<Ix: IndexType>(g: &List<i32, Ix>, rows: &[Vec<(usize, i32)>], handles: &[(LEdge<Ix>, usize, usize)], at: &str) -> Result<(), Failure> {
    let n = rows.len();
    ck!(g.node_count() == n, "list-node_count", "{at}: node_count() = {}, expected {n}", g.node_count());
    let m: usize = rows.iter().map(|r| r.len()).sum();
    ck!(g.edge_count() == m, "list-edge_count", "{at}: edge_count() = {}, expected {m}", g.edge_count());
    let ni: Vec<usize> = g.node_indices().map(|x| x.index()).collect();
    ck!(ni == (0..n).collect::<Vec<_>>(), "list-node_indices", "{at}: node_indices() = {ni:?}");
    let mut exp_refs: Vec<(usize, usize, i32)> = Vec::new();
    for a in 0..n {
        let ia = Ix::new(a);
        let ns: Vec<usize> = g.neighbors(ia).map(|x| x.index()).collect();
        ck!(ns == rows[a].iter().map(|e| e.0).collect::<Vec<_>>(), "list-neighbors", "{at}: neighbors({a}) = {ns:?}, expected {:?}", rows[a]);
        let es: Vec<(usize, usize, i32)> = g.edges(ia).map(|e| (e.source().index(), e.target().index(), *e.weight())).collect();
        let exp: Vec<(usize, usize, i32)> = rows[a].iter().map(|e| (a, e.0, e.1)).collect();
        ck!(es == exp, "list-edges", "{at}: edges({a}) = {es:?}, expected {exp:?}");
        exp_refs.extend(exp);
        let from: Vec<LEdge<Ix>> = g.edge_indices_from(ia).collect();
        ck!(from.len() == rows[a].len(), "list-edge_indices_from", "{at}: edge_indices_from({a}) has {} items", from.len());
        for (j, e) in from.iter().enumerate() {
            ck!(g.edge_endpoints(*e).map(|(x, y)| (x.index(), y.index())) == Some((a, rows[a][j].0)), "list-edge_indices_from", "{at}: edge_indices_from({a})[{j}] endpoints {:?}", g.edge_endpoints(*e));
        }
        for b in 0..n + 1 {
            let first = rows[a].iter().position(|e| e.0 == b);
            if b <= <Ix as IndexType>::max().index() {
                ck!(g.contains_edge(ia, Ix::new(b)) == first.is_some(), "list-contains_edge", "{at}: contains_edge({a},{b})");
                let f = g.find_edge(ia, Ix::new(b));
                match (f, first) {
                    (None, None) => {}
                    (Some(e), Some(j)) => {
                        ck!(g.edge_endpoints(e).map(|(x, y)| (x.index(), y.index())) == Some((a, b)), "list-find_edge", "{at}: find_edge({a},{b}) returned an edge with endpoints {:?}", g.edge_endpoints(e));
                        ck!(DataMap::edge_weight(g, e) == Some(&rows[a][j].1), "list-find_edge-not-first", "{at}: find_edge({a},{b}) is not the first parallel edge in insertion order (weight {:?}, expected {})", DataMap::edge_weight(g, e), rows[a][j].1);
                    }
                    (f, first) => return fail("C05/list-find_edge", format!("{at}: find_edge({a},{b}) = {f:?}, model position {first:?}")),
                }
            }
        }
    }
    let refs: Vec<(usize, usize, i32)> = g.edge_references().map(|e| (e.source().index(), e.target().index(), *e.weight())).collect();
    ck!(refs == exp_refs, "list-edge_references", "{at}: edge_references() = {refs:?}, expected {exp_refs:?}");
    let all_idx: Vec<LEdge<Ix>> = g.edge_indices().take(m + n + 4).collect();
    ck!(all_idx.len() == m, "list-edge_indices", "{at}: edge_indices() yields {} indices for {m} edges", all_idx.len());
    let mut idx: Vec<(usize, usize)> = Vec::new();
    for e in &all_idx {
        match g.edge_endpoints(*e) {
            Some((x, y)) => idx.push((x.index(), y.index())),
            None => return fail("C05/list-edge_indices", format!("{at}: edge_indices() yields {e:?}, which is not an edge")),
        }
    }
    ck!(idx == exp_refs.iter().map(|e| (e.0, e.1)).collect::<Vec<_>>(), "list-edge_indices", "{at}: edge_indices() endpoints {idx:?}");
    // every edge index ever returned stays valid with the same endpoints
    for (h, a, b) in handles {
        ck!(g.edge_endpoints(*h).map(|(x, y)| (x.index(), y.index())) == Some((*a, *b)), "list-handle-invalidated", "{at}: edge index {h:?} returned earlier for {a}->{b} now has endpoints {:?}", g.edge_endpoints(*h));
    }
    Ok(())
}

fn l_run_ix<Ix: IndexType>(c: &LCase) -> Outcome {
    let mut g: List<i32, Ix> = List::new();
    let mut rows: Vec<Vec<(usize, i32)>> = Vec::new();
    let mut handles: Vec<(LEdge<Ix>, usize, usize)> = Vec::new();
    let mut counter = 0;
    let mut obs = Obs::default();
    let (mut parallel, mut updated_non_first) = (false, false);
    for (step, op) in c.ops.iter().enumerate() {
        let n = rows.len();
        let at = format!("after step {step} {op:?}");
        match op {
            LOp::AddNode(kind, sucs) => {
                if n >= 150 {
                    continue;
                }
                let i = match kind {
                    0 => g.add_node(),
                    1 => g.add_node_with_capacity(sucs.len()),
                    _ if n > 0 => {
                        let list: Vec<(Ix, i32)> = sucs.iter().map(|s| { counter += 1; (Ix::new(pick(*s, n)), counter) }).collect();
                        let row: Vec<(usize, i32)> = list.iter().map(|(t, w)| (t.index(), *w)).collect();
                        let i = g.add_node_from_edges(list.into_iter());
                        rows.push(row);
                        ck!(i.index() == n, "list-add_node-index", "{at}: add_node_from_edges returned {}", i.index());
                        l_observe(&g, &rows, &handles, &at)?;
                        continue;
                    }
                    _ => Build::add_node(&mut g, ()),
                };
                ck!(i.index() == n, "list-add_node-index", "{at}: add_node returned {}, expected {n}", i.index());
                rows.push(Vec::new());
            }
            LOp::AddEdge(a, b) | LOp::BuildAddEdge(a, b) => {
                if n == 0 {
                    continue;
                }
                let (a, b) = (pick(*a, n), pick(*b, n));
                counter += 1;
                let e = if matches!(op, LOp::AddEdge(..)) { g.add_edge(Ix::new(a), Ix::new(b), counter) } else { Build::add_edge(&mut g, Ix::new(a), Ix::new(b), counter).expect("Build::add_edge") };
                if rows[a].iter().any(|x| x.0 == b) {
                    parallel = true;
                }
                rows[a].push((b, counter));
                handles.push((e, a, b));
                ck!(g.edge_endpoints(e).map(|(x, y)| (x.index(), y.index())) == Some((a, b)), "list-add_edge-index", "{at}: returned index {e:?} has endpoints {:?}", g.edge_endpoints(e));
                ck!(DataMap::edge_weight(&g, e) == Some(&counter), "list-add_edge-index", "{at}: returned index {e:?} has weight {:?}", DataMap::edge_weight(&g, e));
            }
            LOp::UpdateEdge(a, b) => {
                if n == 0 {
                    continue;
                }
                let (a, b) = (pick(*a, n), pick(*b, n));
                counter += 1;
                let first = rows[a].iter().position(|x| x.0 == b);
                let e = Build::update_edge(&mut g, Ix::new(a), Ix::new(b), counter);
                match first {
                    Some(j) => {
                        rows[a][j].1 = counter;
                        if j > 0 {
                            updated_non_first = true;
                        }
                        // the returned index is the updated edge: it matches find_edge and carries the new weight
                        ck!(Some(e) == g.find_edge(Ix::new(a), Ix::new(b)), "list-update_edge-index", "{at}: update_edge returned {e:?}, find_edge gives {:?}", g.find_edge(Ix::new(a), Ix::new(b)));
                    }
                    None => {
                        rows[a].push((b, counter));
                        handles.push((e, a, b));
                    }
                }
                ck!(g.edge_endpoints(e).map(|(x, y)| (x.index(), y.index())) == Some((a, b)) && DataMap::edge_weight(&g, e) == Some(&counter), "list-update_edge-index", "{at}: update_edge returned {e:?} with endpoints {:?} and weight {:?}", g.edge_endpoints(e), DataMap::edge_weight(&g, e));
            }
            LOp::OutOfRange(a, b) => {
                let (a, b) = (pick(*a, n + 2), n + pick(*b, 2));
                let (a, b) = if a % 2 == 0 || a >= n { (a, b) } else { (b, a) };
                if a.max(b) > <Ix as IndexType>::max().index() {
                    continue;
                }
                let r = guarded(|| g.add_edge(Ix::new(a), Ix::new(b), -1));
                ck!(r.is_err(), "list-add_edge-out-of-range-no-panic", "{at}: add_edge({a},{b}) with {n} nodes returned {r:?}");
                obs.label("out-of-range endpoint");
            }
            LOp::SetWeight(s) => {
                if handles.is_empty() {
                    continue;
                }
                let (h, a, b) = handles[pick(*s, handles.len())];
                counter += 1;
                *DataMapMut::edge_weight_mut(&mut g, h).expect("valid handle") = counter;
                let j = h_pos(&g, h);
                ck!(rows[a][j].0 == b, "list-handle-invalidated", "{at}: handle {h:?} points at position {j} of row {a}");
                rows[a][j].1 = counter;
            }
            LOp::Clear => {
                g.clear();
                rows.clear();
                handles.clear();
            }
        }
        l_observe(&g, &rows, &handles, &at)?;
    }
    obs.nontrivial = parallel && updated_non_first || (parallel && c.ops.iter().any(|o| matches!(o, LOp::UpdateEdge(..))));
    obs.label_if(parallel, "parallel edge");
    obs.label_if(updated_non_first, "update of an edge that is not first in its row");
    Ok(obs)
}

fn h_pos<Ix: IndexType>(g: &List<i32, Ix>, h: LEdge<Ix>) -> usize {
    let (a, _) = g.edge_endpoints(h).expect("valid handle");
    g.edge_indices_from(a).position(|e| e == h).expect("handle among edge_indices_from")
}

pub fn l_run(c: &LCase) -> Outcome {
    match c.width % 4 {
        0 => l_run_ix::<u8>(c),
        1 => l_run_ix::<u16>(c),
        2 => l_run_ix::<u32>(c),
        _ => l_run_ix::<usize>(c),
    }
}

/// libFuzzer entry: bring a decoded case into the domain of `c_strategy`
pub fn c_fuzz_domain(c: &mut CCase) -> bool {
    c.width %= 4;
    c.n0 %= 80;
    c.ops.truncate(90);
    for o in c.ops.iter_mut() {
        if let COp::HubFill(_, k, v) = o {
            *k = 20 + *k % 40;
            v.truncate(59);
            while v.len() < 30 {
                let x = v.len() as u16;
                v.push(x.wrapping_mul(2749));
            }
        }
    }
    true
}

/// libFuzzer entry: bring a decoded case into the domain of `l_strategy`
pub fn l_fuzz_domain(c: &mut LCase) -> bool {
    c.width %= 4;
    c.ops.truncate(120);
    for o in c.ops.iter_mut() {
        if let LOp::AddNode(k, v) = o {
            *k %= 3;
            v.truncate(3);
        }
    }
    true
}

/// cases decoded from byte strings (see `engine::decoded_strategy`)
pub fn c_bytes_strategy(_tier: Tier) -> BoxedStrategy<CCase> {
    decoded_strategy(c_fuzz_domain)
}
pub fn l_bytes_strategy(_tier: Tier) -> BoxedStrategy<LCase> {
    decoded_strategy(l_fuzz_domain)
}

const SEL: [u16; 3] = [0, 21846, 43691];
/// bounded-exhaustive scope: every history of 4 (thorough: 5) operations over a 20-operation alphabet
fn seq_len(tier: Tier) -> usize {
    if tier == Tier::Quick {
        4
    } else {
        5
    }
}
fn c_alphabet() -> Vec<COp> {
    let mut a = vec![COp::AddNode, COp::ClearEdges];
    for x in SEL {
        for y in SEL {
            a.push(COp::AddEdge(x, y, false));
            a.push(COp::AddEdge(x, y, true));
        }
    }
    a
}
fn c_enum_count(tier: Tier) -> u64 {
    2 * (c_alphabet().len() as u64).pow(seq_len(tier) as u32)
}
fn c_enum_make(tier: Tier, i: u64) -> CCase {
    let a = c_alphabet();
    let ops = crate::util::digits(i / 2, a.len() as u64, seq_len(tier)).into_iter().map(|d| a[d].clone()).collect();
    CCase { directed: i % 2 == 0, width: ((i / 2) % 4) as u8, n0: 3, ops }
}
fn l_alphabet() -> Vec<LOp> {
    let mut a = vec![LOp::AddNode(0, Vec::new()), LOp::Clear];
    for x in SEL {
        for y in SEL {
            a.push(LOp::AddEdge(x, y));
            a.push(LOp::UpdateEdge(x, y));
        }
    }
    a
}
fn l_enum_count(tier: Tier) -> u64 {
    (l_alphabet().len() as u64).pow(seq_len(tier) as u32)
}
fn l_enum_make(tier: Tier, i: u64) -> LCase {
    let a = l_alphabet();
    let mut ops = vec![LOp::AddNode(0, Vec::new()), LOp::AddNode(0, Vec::new()), LOp::AddNode(0, Vec::new())];
    ops.extend(crate::util::digits(i, a.len() as u64, seq_len(tier)).into_iter().map(|d| a[d].clone()));
    LCase { width: (i % 4) as u8, ops }
}

pub fn property() -> Property {
    Property {
        id: "C05",
        rule: "csr: insertion histories over Csr<_,_,Directed|Undirected,u8|u16|u32|usize> starting from with_nodes(0..=11 or 34..=79): add_node, add_edge / try_add_edge (random order, duplicates, self-loops), hub fills that grow one row through 31/32/33..59 entries in generated order, out-of-range endpoints (Err / documented panic), clear_edges; after each insertion the touched rows, and regularly the whole structure (counts, strictly ascending neighbors_slice, edges_slice, out_degree, edges, contains_edge below/inside/above each row, edge_references once per edge, node weights, clone) are compared with a row-map model; non-trivial = a row with >= 32 entries that received further inserts/lookups. from_sorted_edges: sorted duplicate-free lists and lists perturbed by one swap / duplicate / decrement / left unsorted; Ok iff strictly increasing, then equal to edge-by-edge construction in reverse order. list: histories over adj::List (add_node variants, add_edge incl. parallel, Build::update_edge, weight writes through saved indices, out-of-range panics, clear) with every edge index ever returned re-validated after every step; non-trivial = a parallel edge and an update. Distinct by case fingerprint; the *-from-bytes sub-checks feed the same interpreter with histories decoded from generated byte strings by the libFuzzer codec (all operation kinds equally likely, up to the thorough-tier length); bounded-exhaustive sub-checks: every history of 4 (thorough: 5) operations over 20-operation alphabets (Csr: add node, clear_edges, add / try-add edge for every ordered pair of three nodes, from with_nodes(3); List: add node, clear, add / update edge for every ordered pair, after three initial nodes)",
        assumptions: &[
            "Csr::contains_edge(node_count, _) (documented to panic, returns false) and List::update_edge with an out-of-range target are not generated",
            "Csr has no index-limit checks: node counts stay below 200 for all widths",
        ],
        both_profiles: false,
        subs: vec![
            sub_fuzz("csr/history", 200_000, 3_000_000, c_strategy, c_run, c_fuzz_domain),
            sub("csr/history-from-bytes", 60_000, 1_000_000, c_bytes_strategy, c_run),
            sub("csr/from_sorted_edges", 600_000, 20_000_000, s_strategy, s_run),
            sub_fuzz("list/history", 300_000, 8_000_000, l_strategy, l_run, l_fuzz_domain),
            sub_enum("csr/all-short-histories", c_enum_count, c_enum_make, c_run),
            sub_enum("list/all-short-histories", l_enum_count, l_enum_make, l_run),
            sub("list/history-from-bytes", 300_000, 6_000_000, l_bytes_strategy, l_run),
        ],
    }
}
