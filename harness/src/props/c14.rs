//! C14 — Acyclic<G> never lets a cycle in and keeps a valid topological order.

use crate::agraph::*;
use crate::engine::*;
use crate::gmodel::*;
use crate::util::pick;
use petgraph::acyclic::{Acyclic, AcyclicEdgeError};
use petgraph::data::Build;
use petgraph::graph::{DiGraph, EdgeIndex, IndexType, NodeIndex};
use petgraph::stable_graph::StableDiGraph;
use petgraph::visit::{IntoEdgeReferences, IntoNeighbors, IntoNodeIdentifiers, NodeCount};
use proptest::prelude::*;
use serde::{Deserialize, Serialize};
use std::convert::TryFrom;

#[derive(Debug, Clone, Serialize, Deserialize)]
pub enum Op {
    AddNode,
    /// kind: 0 try_add_edge, 1 try_update_edge, 2 Build::add_edge, 3 Build::update_edge
    AddEdge(u8, u16, u16),
    /// insert an edge against the current order (target before source), if one is valid
    AddBackEdge(u16, u16),
    RemoveEdge(u16),
    RemoveNode(u16),
    RemoveAbsentNode(u16),
}

#[derive(Debug, Clone, Serialize, Deserialize)]
pub struct Case {
    pub stable: bool,
    /// 0 u8, 1 u32
    pub width: u8,
    pub ops: Vec<Op>,
}

pub fn strategy(tier: Tier) -> BoxedStrategy<Case> {
    let maxops = if tier == Tier::Quick { 40 } else { 120 };
    let s = any::<u16>;
    let op = prop_oneof![
        8 => Just(Op::AddNode),
        20 => (0u8..4, s(), s()).prop_map(|(k, a, b)| Op::AddEdge(k, a, b)),
        8 => (s(), s()).prop_map(|(a, b)| Op::AddBackEdge(a, b)),
        4 => s().prop_map(Op::RemoveEdge),
        6 => s().prop_map(Op::RemoveNode),
        3 => s().prop_map(Op::RemoveAbsentNode),
    ];
    (any::<bool>(), 0u8..2, proptest::collection::vec(op, 0..=maxops))
        .prop_map(|(stable, width, ops)| Case { stable, width, ops })
        .boxed()
}

macro_rules! ck {
    ($cond:expr, $sig:expr, $($arg:tt)*) => {
        if !($cond) {
            return Err(Failure { sig: format!("C14/{}", $sig), msg: format!($($arg)*) });
        }
    };
}

fn model_reach(m: &Model) -> Vec<Vec<bool>> {
    let n = m.nodes.len();
    let a = AGraph { directed: true, n, edges: m.edges.iter().flatten().map(|e| (e.src, e.dst, 1)).collect() };
    a.reach_plus()
}

macro_rules! acyclic_runner {
    ($fname:ident, $obs:ident, $G:ident, $swap:expr) => {
        /// order bookkeeping + inner graph against the model; returns the node sequence of nodes_iter
        fn $obs<Ix: IndexType>(g: &Acyclic<$G<W, W, Ix>>, m: &Model, at: &str) -> Result<Vec<usize>, Failure> {
            observe(g.inner(), m, "C14", false, false).map_err(|f| Failure { sig: f.sig, msg: format!("{at}: inner graph: {}", f.msg) })?;
            let rp = model_reach(m);
            let live = m.live_nodes();
            for &x in &live {
                ck!(!rp[x][x], "inner-graph-cyclic", "{at}: the wrapped graph has a cycle through node {x}");
            }
            let seq: Vec<usize> = g.nodes_iter().take(live.len() + 4).map(|x| x.index()).collect();
            let mut sorted_seq = seq.clone();
            sorted_seq.sort();
            ck!(sorted_seq == live, "order-lists-wrong-nodes", "{at}: nodes_iter() = {seq:?}, live nodes are {live:?}");
            let mut last = None;
            for &x in &seq {
                let p = g.get_position(NodeIndex::new(x));
                ck!(g.at_position(p).map(|y| y.index()) == Some(x), "at_position", "{at}: at_position(get_position({x})) = {:?}", g.at_position(p));
                ck!(last.map_or(true, |l| l < p), "order-positions-not-increasing", "{at}: positions along nodes_iter are not strictly increasing at node {x}");
                last = Some(p);
            }
            for ed in m.edges.iter().flatten() {
                let (ps, pd) = (g.get_position(NodeIndex::new(ed.src)), g.get_position(NodeIndex::new(ed.dst)));
                ck!(ps < pd, "order-edge-backward", "{at}: edge {}->{} goes from position {ps:?} to {pd:?}", ed.src, ed.dst);
            }
            let full: Vec<usize> = g.range(..).map(|x| x.index()).collect();
            ck!(full == seq, "range", "{at}: range(..) = {full:?} vs nodes_iter {seq:?}");
            if let Some(&mid) = seq.get(seq.len() / 2) {
                let p = g.get_position(NodeIndex::new(mid));
                let tail: Vec<usize> = g.range(p..).map(|x| x.index()).collect();
                ck!(tail == seq[seq.len() / 2..].to_vec(), "range", "{at}: range(pos({mid})..) = {tail:?}");
                let head: Vec<usize> = g.range(..p).map(|x| x.index()).collect();
                ck!(head == seq[..seq.len() / 2].to_vec(), "range", "{at}: range(..pos({mid})) = {head:?}");
                // the other bound kinds: one position inclusive, empty, and a window of up to three positions
                let one: Vec<usize> = g.range(p..=p).map(|x| x.index()).collect();
                ck!(one == vec![mid], "range", "{at}: range(pos({mid})..=pos({mid})) = {one:?}");
                ck!(g.range(p..p).next().is_none(), "range", "{at}: range(p..p) is not empty");
                let hi = (seq.len() / 2 + 2).min(seq.len() - 1);
                let q = g.get_position(NodeIndex::new(seq[hi]));
                let win: Vec<usize> = g.range(p..=q).map(|x| x.index()).collect();
                ck!(win == seq[seq.len() / 2..=hi].to_vec(), "range", "{at}: range(pos({mid})..=pos({})) = {win:?}", seq[hi]);
                let win2: Vec<usize> = g.range(p..q).map(|x| x.index()).collect();
                ck!(win2 == seq[seq.len() / 2..hi].to_vec(), "range", "{at}: range(pos({mid})..pos({})) = {win2:?}", seq[hi]);
            }
            // is_valid_edge predicts exactly the insertions that keep the graph acyclic
            for &a in &live {
                for &b in &live {
                    let exp = a != b && !rp[b][a];
                    let got = g.is_valid_edge(NodeIndex::new(a), NodeIndex::new(b));
                    ck!(got == exp, "is_valid_edge", "{at}: is_valid_edge({a},{b}) = {got}, expected {exp}");
                }
            }
            // trait pass-through spot checks
            ck!(g.node_count() == live.len(), "pass-through", "{at}: NodeCount");
            let ids: Vec<usize> = g.node_identifiers().map(|x| x.index()).collect();
            ck!(ids == live, "pass-through", "{at}: node_identifiers through the wrapper = {ids:?}");
            ck!(g.edge_references().count() == m.edge_count(), "pass-through", "{at}: edge_references through the wrapper");
            if let Some(&x) = live.first() {
                let mut a: Vec<usize> = g.neighbors(NodeIndex::new(x)).map(|y| y.index()).collect();
                let mut b: Vec<usize> = m.incident(x, petgraph::Direction::Outgoing).iter().map(|t| t.2).collect();
                a.sort();
                b.sort();
                ck!(a == b, "pass-through", "{at}: neighbors({x}) through the wrapper");
            }
            Ok(seq)
        }

        fn $fname<Ix: IndexType>(c: &Case) -> Outcome {
            let mut g: Acyclic<$G<W, W, Ix>> = Acyclic::new();
            let mut m = Model::new(true);
            let lim = <Ix as IndexType>::max().index();
            let mut obs = Obs::default();
            let (mut interesting_removal, mut reorder_after) = (false, false);
            let mut seq = $obs(&g, &m, "initially")?;
            for (step, op) in c.ops.iter().enumerate() {
                let at = format!("after step {step} {op:?}");
                let live = m.live_nodes();
                let n = live.len();
                let rp = model_reach(&m);
                let before = m.clone();
                let mut rejected = false;
                match op {
                    Op::AddNode => {
                        if m.nodes.len() >= 40 || m.nodes.len() >= lim {
                            continue;
                        }
                        let w = m.fresh();
                        let i = Build::add_node(&mut g, w).index();
                        ck!(!m.node_live(i), "add_node-live-index", "{at}: add_node returned the live index {i}");
                        while m.nodes.len() <= i {
                            m.nodes.push(None);
                        }
                        m.nodes[i] = Some(w);
                    }
                    Op::AddEdge(..) | Op::AddBackEdge(..) => {
                        if n == 0 {
                            continue;
                        }
                        let (kind, a, b) = match op {
                            Op::AddEdge(k, a, b) => (*k, live[pick(*a, n)], live[pick(*b, n)]),
                            Op::AddBackEdge(a, b) => {
                                // choose a pair whose target currently sits before its source
                                let i = pick(*a, n);
                                let j = pick(*b, n);
                                let (pi, pj) = (seq.iter().position(|&x| x == live[i]), seq.iter().position(|&x| x == live[j]));
                                let (a, b) = if pi < pj { (live[j], live[i]) } else { (live[i], live[j]) };
                                (0, a, b)
                            }
                            _ => unreachable!(),
                        };
                        let w = m.fresh();
                        let valid = a != b && !rp[b][a];
                        let needs_reorder = valid && seq.iter().position(|&x| x == b) < seq.iter().position(|&x| x == a);
                        let predicted = g.is_valid_edge(NodeIndex::new(a), NodeIndex::new(b));
                        ck!(predicted == valid, "is_valid_edge", "{at}: is_valid_edge({a},{b}) = {predicted}, expected {valid}");
                        let existing = m.find(a, b);
                        let (na, nb) = (NodeIndex::<Ix>::new(a), NodeIndex::<Ix>::new(b));
                        // Ok(edge index) | Err(kind of error)
                        let res: Result<Result<usize, String>, String> = match kind {
                            0 => guarded(|| g.try_add_edge(na, nb, w).map(|e| e.index()).map_err(|e| err_kind(&e))),
                            1 => guarded(|| g.try_update_edge(na, nb, w).map(|e| e.index()).map_err(|e| err_kind(&e))),
                            2 => guarded(|| Build::add_edge(&mut g, na, nb, w).map(|e| e.index()).ok_or("None".to_string())),
                            _ => guarded(|| Ok(Build::update_edge(&mut g, na, nb, w).index())),
                        };
                        let update = matches!(kind, 1 | 3);
                        if m.edge_count() >= lim.min(200) && !(update && existing.is_some()) {
                            // index space of the inner graph exhausted: not part of this property
                            return Ok(obs);
                        }
                        match (valid, res) {
                            (true, Ok(Ok(e))) => {
                                if update && existing.is_some() {
                                    ck!(m.joins(e, a, b), "update_edge-index", "{at}: returned edge {e} does not join {a}->{b}");
                                    m.edges[e].as_mut().unwrap().w = w;
                                } else {
                                    ck!(!m.edge_live(e), "add_edge-live-index", "{at}: returned the live edge index {e}");
                                    while m.edges.len() <= e {
                                        m.edges.push(None);
                                    }
                                    let s = m.seq();
                                    m.edges[e] = Some(MEdge { w, src: a, dst: b, seq: s });
                                }
                                if needs_reorder {
                                    obs.label("accepted edge that needed a reorder");
                                    if interesting_removal {
                                        reorder_after = true;
                                    }
                                }
                            }
                            (true, r) => return fail("C14/valid-edge-rejected", format!("{at}: inserting {a}->{b} keeps the graph acyclic but the call gave {r:?}")),
                            (false, Ok(Ok(e))) => return fail("C14/cycle-accepted", format!("{at}: inserting {a}->{b} closes a cycle (or is a self-loop) but was accepted as edge {e}")),
                            (false, Ok(Err(k))) => {
                                let exp = if kind == 2 { "None" } else if a == b { "SelfLoop" } else { "Cycle" };
                                ck!(k == exp, "error-kind", "{at}: rejected with {k}, expected {exp}");
                                rejected = true;
                            }
                            (false, Err(_)) if kind == 3 => rejected = true, // Build::update_edge documents the panic
                            (false, Err(e)) => return fail("C14/panic-on-rejection", format!("{at}: rejecting {a}->{b} panicked: {e}")),
                        }
                    }
                    Op::RemoveEdge(s) => {
                        let x = pick(*s, m.edges.len() + 2);
                        if x > lim {
                            continue;
                        }
                        let got = g.remove_edge(EdgeIndex::new(x));
                        let exp = if $swap { m.swap_remove_edge(x).map(|e| e.w) } else { m.vacate_edge(x).map(|e| e.w) };
                        ck!(got == exp, "remove_edge-result", "{at}: remove_edge({x}) returned {got:?}, expected {exp:?}");
                    }
                    Op::RemoveNode(s) => {
                        if n == 0 {
                            continue;
                        }
                        let a = live[pick(*s, n)];
                        if $swap && a + 1 != m.nodes.len() {
                            interesting_removal = true;
                        }
                        let got = guarded(|| g.remove_node(NodeIndex::new(a)));
                        let exp = if $swap { m.swap_remove_node(a) } else { m.vacate_node(a) };
                        match got {
                            Ok(got) => ck!(got == exp, "remove_node-result", "{at}: remove_node({a}) returned {got:?}, expected {exp:?}"),
                            Err(e) => return fail("C14/remove_node-panics", format!("{at}: remove_node of the live node {a} panicked: {e}")),
                        }
                        if $swap {
                            resync(g.inner(), &mut m, "C14", false, &at)?;
                        }
                    }
                    Op::RemoveAbsentNode(s) => {
                        // vacant slot (stable graphs), first index past the end, or further out
                        let cand: Vec<usize> = (0..m.nodes.len() + 3).filter(|&i| !m.node_live(i) && i <= lim).collect();
                        if cand.is_empty() {
                            continue;
                        }
                        let a = cand[pick(*s, cand.len())];
                        if !$swap {
                            interesting_removal = true;
                        }
                        let got = guarded(|| g.remove_node(NodeIndex::new(a)));
                        match got {
                            Ok(None) => {}
                            Ok(Some(w)) => return fail("C14/remove_node-result", format!("{at}: remove_node of the absent index {a} returned Some({w:?})")),
                            Err(e) => return fail("C14/remove-absent-node-panics", format!("{at}: remove_node of the absent index {a} panicked (documented: returns None): {e}")),
                        }
                        rejected = true;
                        obs.label("remove_node on an absent index");
                    }
                }
                let new_seq = $obs(&g, &m, &at)?;
                if rejected {
                    ck!(m.nodes == before.nodes && m.edges == before.edges, "oracle-self-check", "model changed on a rejected call");
                    ck!(new_seq == seq, "rejected-call-changed-order", "{at}: a rejected call changed the order from {seq:?} to {new_seq:?}");
                }
                seq = new_seq;
            }
            obs.nontrivial = reorder_after;
            obs.label_if(interesting_removal, if $swap { "removed a non-last node (renumbering)" } else { "removed an absent / vacant node" });
            Ok(obs)
        }
    };
}

fn err_kind<N>(e: &AcyclicEdgeError<N>) -> String {
    match e {
        AcyclicEdgeError::Cycle(_) => "Cycle".into(),
        AcyclicEdgeError::SelfLoop => "SelfLoop".into(),
        AcyclicEdgeError::InvalidEdge => "InvalidEdge".into(),
    }
}

acyclic_runner!(run_digraph, observe_digraph, DiGraph, true);
acyclic_runner!(run_stable, observe_stable, StableDiGraph, false);

pub fn run(c: &Case) -> Outcome {
    match (c.stable, c.width % 2) {
        (false, 0) => run_digraph::<u8>(c),
        (false, _) => run_digraph::<u32>(c),
        (true, 0) => run_stable::<u8>(c),
        (true, _) => run_stable::<u32>(c),
    }
}

// ------------------------------------------------------------------ try_from_graph / TryFrom

#[derive(Debug, Clone, Serialize, Deserialize)]
pub struct TCase {
    pub g: RawGraph,
    pub stable: bool,
    pub salt: u8,
}

pub fn t_strategy(tier: Tier) -> BoxedStrategy<TCase> {
    let n = if tier == Tier::Quick { 9 } else { 14 };
    (raw_graph(0, n, 24, Some(true)), any::<bool>(), any::<u8>()).prop_map(|(g, stable, salt)| TCase { g, stable, salt }).boxed()
}

pub fn t_run(c: &TCase) -> Outcome {
    let a = c.g.build(&GOpts::new(true, true, 1, 1));
    let acyclic = !a.has_directed_cycle();
    let mut obs = Obs::new(a.m() >= 3 && a.n >= 3);
    macro_rules! check_ok {
        ($res:expr, $what:expr, $ids:expr) => {{
            match $res {
                Ok(w) => {
                    ck!(acyclic, "try_from-accepts-cyclic", "{} accepted a graph with a cycle", $what);
                    let ids: Vec<NodeIndex<u32>> = $ids;
                    let seq: Vec<NodeIndex<u32>> = w.nodes_iter().collect();
                    let mut s2 = seq.clone();
                    s2.sort();
                    let mut i2 = ids.clone();
                    i2.sort();
                    ck!(s2 == i2, "try_from-order-nodes", "{}: order lists {seq:?}", $what);
                    for &(u, v, _) in &a.edges {
                        ck!(w.get_position(ids[u]) < w.get_position(ids[v]), "try_from-order-edge", "{}: edge {u}->{v} not forward in the initial order", $what);
                    }
                }
                Err(cy) => {
                    ck!(!acyclic, "try_from-rejects-acyclic", "{} rejected an acyclic graph", $what);
                    let rp = a.reach_plus();
                    let ids: Vec<NodeIndex<u32>> = $ids;
                    let l = ids.iter().position(|&x| x == cy.node_id());
                    ck!(l.map_or(false, |l| rp[l][l]), "try_from-cycle-witness", "{}: Cycle names {:?}, which is not on a cycle", $what, cy.node_id());
                }
            }
        }};
    }
    if c.stable {
        let (g, map) = to_stable_holes::<i32, petgraph::Directed, u32>(&a, c.salt as u64 + 1, |w| w);
        check_ok!(Acyclic::try_from_graph(g.clone()), "try_from_graph(StableDiGraph)", map.clone());
        check_ok!(Acyclic::<StableDiGraph<usize, i32>>::try_from(g), "TryFrom<StableDiGraph>", map.clone());
        obs.label("StableDiGraph with holes");
    } else {
        let g: DiGraph<usize, i32> = to_graph(&a, |w| w);
        let ids: Vec<NodeIndex<u32>> = (0..a.n).map(NodeIndex::new).collect();
        check_ok!(Acyclic::try_from_graph(g.clone()), "try_from_graph(DiGraph)", ids.clone());
        check_ok!(Acyclic::<DiGraph<usize, i32>>::try_from(g), "TryFrom<DiGraph>", ids.clone());
    }
    obs.label_if(acyclic, "acyclic");
    Ok(obs)
}

/// libFuzzer entry: bring a decoded case into the domain of `strategy`
pub fn fuzz_domain(c: &mut Case) -> bool {
    c.width %= 2;
    c.ops.truncate(120);
    for o in c.ops.iter_mut() {
        if let Op::AddEdge(k, ..) = o {
            *k %= 4;
        }
    }
    true
}

/// cases decoded from byte strings (see `engine::decoded_strategy`)
pub fn bytes_strategy(_tier: Tier) -> BoxedStrategy<Case> {
    decoded_strategy(fuzz_domain)
}

const SEL: [u16; 3] = [0, 21846, 43691];
/// history length of the bounded-exhaustive sub-check
fn seq_len(tier: Tier) -> usize {
    if tier == Tier::Quick {
        4
    } else {
        5
    }
}
/// alphabet of the bounded-exhaustive sub-check
fn alphabet() -> Vec<Op> {
    let mut a = vec![Op::AddNode];
    for x in SEL {
        a.push(Op::RemoveNode(x));
        a.push(Op::RemoveEdge(x));
        for y in SEL {
            a.push(Op::AddEdge(0, x, y));
        }
    }
    a
}
fn enum_count(tier: Tier) -> u64 {
    2 * (alphabet().len() as u64).pow(seq_len(tier) as u32)
}
fn enum_make(tier: Tier, i: u64) -> Case {
    let a = alphabet();
    let mut ops = vec![Op::AddNode, Op::AddNode, Op::AddNode];
    ops.extend(crate::util::digits(i / 2, a.len() as u64, seq_len(tier)).into_iter().map(|d| a[d].clone()));
    Case { stable: i % 2 == 0, width: 1, ops }
}

pub fn property() -> Property {
    Property {
        id: "C14",
        rule: "operation histories (<=40 ops quick / <=120 thorough) over Acyclic<DiGraph> and Acyclic<StableDiGraph> with u8 and u32 indices: add_node, try_add_edge / try_update_edge / Build::add_edge / Build::update_edge between live nodes (incl. self-loops, edges closing cycles and edges against the current order), remove_edge (live and absent), remove_node of present nodes (incl. non-last nodes of a DiGraph) and of absent / vacant / out-of-range indices; after every step the inner graph is compared with the reference multigraph of C01/C02, and the order bookkeeping is checked: nodes_iter = live nodes once, positions strictly increasing, at_position inverse of get_position, every edge forward, range(..) and partial ranges, is_valid_edge for all ordered pairs = no path back (Warshall); insertions accepted iff valid with the right error kind; a rejected call leaves graph and order sequence identical; non-trivial = a renumbering (DiGraph) or absent-node (StableDiGraph) removal followed by an accepted edge that needed a reorder. Second sub-check: try_from_graph / TryFrom on random digraphs (DiGraph, StableDiGraph with vacancies): Ok iff acyclic, initial order valid, Cycle names a node on a cycle. Distinct by case fingerprint; the *-from-bytes sub-checks feed the same interpreter with histories decoded from generated byte strings by the libFuzzer codec (all operation kinds equally likely, up to the thorough-tier length); bounded-exhaustive sub-check: every history of 4 (thorough: 5) operations over a 16-operation alphabet (add node, try_add_edge between / remove node / remove edge at the first, middle and last position) after three initial nodes, on both inner graph types",
        assumptions: &["insertions are only attempted between live nodes (try_add_edge documents a panic otherwise); histories stop when the inner graph's index space is exhausted"],
        both_profiles: false,
        subs: vec![
            sub_fuzz("acyclic/history", 600_000, 4_000_000, strategy, run, fuzz_domain),
            sub_enum("acyclic/all-short-histories", enum_count, enum_make, run), sub("acyclic/history-from-bytes", 300_000, 4_000_000, bytes_strategy, run),
            sub("acyclic/try_from", 1_500_000, 30_000_000, t_strategy, t_run),
        ],
    }
}
