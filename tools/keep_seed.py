#!/usr/bin/env python3
"""keep_seed.py <Cxx> <mN> <confirm-log-line-file> <caught: yes|no> <signature or note>
Copies a confirmed seeded change from /tmp/seed into /verif/seeded/<Cxx>-<mN>/ with meta.json."""
import sys, os, json, shutil, re
pid, m, conf, caught, note = sys.argv[1:6]
root = os.environ.get("SEEDROOT", "/tmp/seed")
tag = os.environ.get("SEEDTAG", "")
src = f"{root}/{pid}/{m}"
dst = f"/verif/seeded/{pid}-{tag}{m}"
os.makedirs(dst, exist_ok=True)
for f in ("patch.diff", "demo.rs", "notes.md"):
    shutil.copy(os.path.join(src, f), dst)
line = [l for l in open(conf) if f"/{pid}/{m}:" in l]
line = line[-1].strip() if line else ""
notes = open(os.path.join(src, "notes.md")).read()
meta = {
    "property": pid,
    "breaks": notes.strip().split("\n\n")[0][:600],
    "needs_to_manifest": "see notes.md (written by the independent sub-agent that produced the change)",
    "base_commit": ("/repo HEAD at the time (after the fix: commits)" if tag else "656b2a7 (pinned snapshot)") + "; applies to /repo HEAD with git apply",
    "independently_confirmed": line,
    "what_i_ran": [
        f"tools/confirm_seed.sh <scratch worktree of /repo> {root}/{pid}/{m}   # scratch worktree: suite green with patch, demo fails with / passes without",
        f"tools/try_seed.sh seeded/{pid}-{tag}{m}/patch.diff {pid} quick   # apply to /repo, run ./check {pid} quick, git checkout -- .",
    ],
    "caught_by_check": caught == "yes",
    "check_result": note,
}
json.dump(meta, open(os.path.join(dst, "meta.json"), "w"), indent=1)
print("kept", dst)
