//! C13 — VF2 isomorphism functions against the definition of (induced sub)graph isomorphism.

use crate::agraph::{small_graph, small_graph_count};
use crate::engine::*;
use crate::util::{perm_from_keys, pick};
use petgraph::algo::{
    is_isomorphic, is_isomorphic_matching, is_isomorphic_subgraph, is_isomorphic_subgraph_matching,
    subgraph_isomorphisms_iter,
};
use petgraph::graph::{Graph, NodeIndex};
use petgraph::graphmap::GraphMap;
use petgraph::{Directed, EdgeType, Undirected};
use proptest::prelude::*;
use serde::{Deserialize, Serialize};

#[derive(Debug, Clone, Serialize, Deserialize)]
pub struct Case {
    pub directed: bool,
    pub loops: bool,
    /// 0 independent pair, 1 g0 = relabeled induced subgraph of g1, 2 = 1 with one pair toggled,
    /// 3 = relabeled copy with a degree-preserving 2-switch, 4 = 1 with one weight changed
    pub kind: u8,
    pub n1: u8,
    pub adj1: u64,
    pub n0: u8,
    pub adj0: u64,
    pub subset: u8,
    pub keys0: Vec<u16>,
    pub keys1: Vec<u16>,
    pub sel: (u16, u16, u16),
    pub nw: Vec<u8>,
    pub ew: u64,
    /// node / edge predicate: 0 always true, 1 equality, 2 w0 <= w1
    pub npred: u8,
    pub epred: u8,
    /// number of distinct node weights (1..=3)
    pub alphabet: u8,
}

pub fn strategy(tier: Tier) -> BoxedStrategy<Case> {
    let maxn = if tier == Tier::Quick { 6u8 } else { 7u8 };
    (
        (any::<bool>(), any::<bool>(), 0u8..5, prop_oneof![1 => 0u8..=2, 7 => 3u8..=maxn], any::<u64>(), prop_oneof![1 => 0u8..=2, 5 => 3u8..=maxn], any::<u64>(), any::<u8>()),
        (
            proptest::collection::vec(any::<u16>(), 8),
            proptest::collection::vec(any::<u16>(), 8),
            (any::<u16>(), any::<u16>(), any::<u16>()),
            proptest::collection::vec(any::<u8>(), 16),
            any::<u64>(),
            0u8..3,
            0u8..3,
            1u8..=3,
        ),
        // density: mask the adjacency bits to get sparse / medium / dense graphs
        (any::<u64>(), any::<u64>(), 0u8..3),
    )
        .prop_map(|((directed, loops, kind, n1, adj1, n0, adj0, subset), (keys0, keys1, sel, nw, ew, npred, epred, alphabet), (m1, m2, dens))| {
            let mask = match dens {
                0 => m1 & m2,
                1 => m1,
                _ => m1 | m2,
            };
            Case { directed, loops, kind, n1, adj1: adj1 & mask, n0: n0.min(n1), adj0: adj0 & mask.rotate_left(7), subset, keys0, keys1, sel, nw, ew, npred, epred, alphabet }
        })
        .boxed()
}

#[derive(Clone, Debug, PartialEq)]
pub struct SG {
    pub directed: bool,
    pub n: usize,
    pub adj: Vec<Vec<bool>>,
    pub nw: Vec<u8>,
    pub ew: Vec<Vec<u8>>,
}

impl SG {
    fn from_bits(directed: bool, loops: bool, n: usize, bits: u64, nw: &[u8], ewbits: u64, alphabet: u8, off: usize) -> SG {
        let mut adj = vec![vec![false; n]; n];
        let mut ew = vec![vec![0u8; n]; n];
        let mut k = 0;
        for i in 0..n {
            for j in 0..n {
                if !directed && j < i {
                    continue;
                }
                let b = (bits >> (k % 64)) & 1 == 1;
                let w = ((ewbits >> (k % 64)) & 1) as u8;
                k += 1;
                if i == j && !loops {
                    continue;
                }
                if b {
                    adj[i][j] = true;
                    ew[i][j] = w;
                    if !directed {
                        adj[j][i] = true;
                        ew[j][i] = w;
                    }
                }
            }
        }
        let nw = (0..n).map(|i| nw[(i + off) % nw.len()] % alphabet.max(1)).collect();
        SG { directed, n, adj, nw, ew }
    }

    /// induced subgraph on `nodes` (in that order)
    fn induced(&self, nodes: &[usize]) -> SG {
        let n = nodes.len();
        let mut adj = vec![vec![false; n]; n];
        let mut ew = vec![vec![0u8; n]; n];
        for (i, &a) in nodes.iter().enumerate() {
            for (j, &b) in nodes.iter().enumerate() {
                adj[i][j] = self.adj[a][b];
                ew[i][j] = self.ew[a][b];
            }
        }
        SG { directed: self.directed, n, adj, nw: nodes.iter().map(|&a| self.nw[a]).collect(), ew }
    }

    /// relabel: new label of old node i is perm[i]
    fn relabel(&self, perm: &[usize]) -> SG {
        let mut inv = vec![0; self.n];
        for (old, &new) in perm.iter().enumerate() {
            inv[new] = old;
        }
        self.induced(&inv)
    }

    fn toggle(&mut self, i: usize, j: usize, loops: bool) {
        if i == j && !loops {
            return;
        }
        let v = !self.adj[i][j];
        self.adj[i][j] = v;
        if !self.directed {
            self.adj[j][i] = v;
        }
    }

    fn edge_count(&self) -> usize {
        let mut c = 0;
        for i in 0..self.n {
            for j in 0..self.n {
                if self.adj[i][j] && (self.directed || i <= j) {
                    c += 1;
                }
            }
        }
        c
    }

    fn to_graph<Ty: EdgeType>(&self, order_keys: &[u16]) -> Graph<u8, u8, Ty, u32> {
        let mut g = Graph::with_capacity(0, 0);
        for i in 0..self.n {
            g.add_node(self.nw[i]);
        }
        let mut es = Vec::new();
        for i in 0..self.n {
            for j in 0..self.n {
                if self.adj[i][j] && (self.directed || i <= j) {
                    es.push((i, j));
                }
            }
        }
        // insertion order shuffled by the keys
        let perm = perm_from_keys(&order_keys.iter().cycle().take(es.len()).copied().collect::<Vec<_>>(), es.len());
        let mut ordered = vec![(0, 0); es.len()];
        for (k, e) in es.iter().enumerate() {
            ordered[perm[k]] = *e;
        }
        for (i, j) in ordered {
            g.add_edge(NodeIndex::new(i), NodeIndex::new(j), self.ew[i][j]);
        }
        g
    }
}

fn pred(kind: u8, a: u8, b: u8) -> bool {
    match kind {
        0 => true,
        1 => a == b,
        _ => a <= b,
    }
}

/// all injective maps f: V0 -> V1 that are induced-subgraph isomorphisms satisfying the predicates
fn embeddings(g0: &SG, g1: &SG, np: u8, ep: u8) -> Vec<Vec<usize>> {
    let mut out = Vec::new();
    if g0.n > g1.n {
        return out;
    }
    let mut f: Vec<usize> = Vec::with_capacity(g0.n);
    let mut used = vec![false; g1.n];
    fn rec(g0: &SG, g1: &SG, np: u8, ep: u8, f: &mut Vec<usize>, used: &mut Vec<bool>, out: &mut Vec<Vec<usize>>) {
        let a = f.len();
        if a == g0.n {
            out.push(f.clone());
            return;
        }
        for x in 0..g1.n {
            if used[x] || !pred(np, g0.nw[a], g1.nw[x]) {
                continue;
            }
            // consistency with everything mapped so far, including the pair (a, a)
            let mut ok = true;
            f.push(x);
            for b in 0..=a {
                let y = f[b];
                for &(p, q, u, v) in &[(a, b, x, y), (b, a, y, x)] {
                    if g0.adj[p][q] != g1.adj[u][v] {
                        ok = false;
                    } else if g0.adj[p][q] && !pred(ep, g0.ew[p][q], g1.ew[u][v]) {
                        ok = false;
                    }
                }
                if !ok {
                    break;
                }
            }
            if ok {
                used[x] = true;
                rec(g0, g1, np, ep, f, used, out);
                used[x] = false;
            }
            f.pop();
        }
    }
    rec(g0, g1, np, ep, &mut f, &mut used, &mut out);
    out
}

fn build_pair(c: &Case) -> (SG, SG) {
    let n1 = c.n1 as usize;
    let g1 = SG::from_bits(c.directed, c.loops, n1, c.adj1, &c.nw, c.ew, c.alphabet, 0);
    let kind = if n1 == 0 { 0 } else { c.kind };
    let g0 = match kind {
        0 => SG::from_bits(c.directed, c.loops, c.n0 as usize, c.adj0, &c.nw, c.ew.rotate_left(13), c.alphabet, 5),
        3 => {
            // relabeled copy with a 2-switch: replace edges a-b, c-d by a-d, c-b when possible
            let mut g = g1.clone();
            let (a, b, cc, d) = (pick(c.sel.0, n1), pick(c.sel.1, n1), pick(c.sel.2, n1), pick(c.sel.0 ^ c.sel.2, n1));
            let distinct = a != b && a != cc && a != d && b != cc && b != d && cc != d;
            if distinct && g.adj[a][b] && g.adj[cc][d] && !g.adj[a][d] && !g.adj[cc][b] {
                g.toggle(a, b, false);
                g.toggle(cc, d, false);
                g.toggle(a, d, false);
                g.toggle(cc, b, false);
            }
            g.relabel(&perm_from_keys(&c.keys0, n1))
        }
        _ => {
            let nodes: Vec<usize> = (0..n1).filter(|i| (c.subset >> i) & 1 == 1 || c.subset == 0).collect();
            let mut g = g1.induced(&nodes);
            let m = g.n;
            if m > 0 {
                g = g.relabel(&perm_from_keys(&c.keys0, m));
                if kind == 2 {
                    g.toggle(pick(c.sel.0, m), pick(c.sel.1, m), c.loops);
                }
                if kind == 4 {
                    let i = pick(c.sel.0, m);
                    g.nw[i] = (g.nw[i] + 1) % c.alphabet.max(1);
                    let j = pick(c.sel.1, m);
                    if g.adj[i][j] {
                        g.ew[i][j] ^= 1;
                        if !g.directed {
                            g.ew[j][i] = g.ew[i][j];
                        }
                    }
                }
            }
            g
        }
    };
    (g0, g1)
}

fn check_pair<Ty: EdgeType>(g0: &SG, g1: &SG, c: &Case, tag: &str, obs: &mut Obs) -> Result<(bool, Vec<Vec<usize>>), Failure> {
    let p0: Graph<u8, u8, Ty, u32> = g0.to_graph(&c.keys1);
    let p1: Graph<u8, u8, Ty, u32> = g1.to_graph(&c.keys0);
    let plain = embeddings(g0, g1, 0, 0);
    let sem = embeddings(g0, g1, c.npred, c.epred);
    let (np, ep) = (c.npred, c.epred);

    let iso = g0.n == g1.n && !plain.is_empty();
    ensure_eq!(is_isomorphic(&p0, &p1), iso, "C13/is_isomorphic", "is_isomorphic{tag}");
    ensure_eq!(is_isomorphic_subgraph(&p0, &p1), !plain.is_empty(), "C13/is_isomorphic_subgraph", "is_isomorphic_subgraph{tag}");
    let iso_m = g0.n == g1.n && !sem.is_empty();
    ensure_eq!(
        is_isomorphic_matching(&p0, &p1, |a, b| pred(np, *a, *b), |a, b| pred(ep, *a, *b)),
        iso_m,
        "C13/is_isomorphic_matching",
        "is_isomorphic_matching{tag} (node pred {np}, edge pred {ep})"
    );
    ensure_eq!(
        is_isomorphic_subgraph_matching(&p0, &p1, |a, b| pred(np, *a, *b), |a, b| pred(ep, *a, *b)),
        !sem.is_empty(),
        "C13/is_isomorphic_subgraph_matching",
        "is_isomorphic_subgraph_matching{tag} (node pred {np}, edge pred {ep})"
    );
    // the iterator: exactly the oracle's set, each once
    let mut nm = |a: &u8, b: &u8| pred(np, *a, *b);
    let mut em = |a: &u8, b: &u8| pred(ep, *a, *b);
    let limit = sem.len() + 3;
    let got: Vec<Vec<usize>> = match subgraph_isomorphisms_iter(&&p0, &&p1, &mut nm, &mut em) {
        None => {
            ensure!(g0.n > g1.n || g0.edge_count() > g1.edge_count(), "C13/iter-none", "subgraph_isomorphisms_iter{tag} returned None although the size pre-checks pass");
            Vec::new()
        }
        Some(it) => it.take(limit).collect(),
    };
    for m in &got {
        ensure_eq!(m.len(), g0.n, "C13/iter-mapping-length", "mapping length{tag}");
        let mut seen = vec![false; g1.n];
        for &x in m {
            ensure!(x < g1.n && !seen[x], "C13/iter-mapping-not-injective", "mapping {m:?}{tag} is not an injective map into 0..{}", g1.n);
            seen[x] = true;
        }
        ensure!(sem.contains(m), "C13/iter-invalid-mapping", "subgraph_isomorphisms_iter{tag} yielded {m:?}, which is not an induced-subgraph isomorphism satisfying the predicates");
    }
    let mut sorted = got.clone();
    sorted.sort();
    let before = sorted.len();
    sorted.dedup();
    if before != sorted.len() {
        let sig = if g0.n == 0 { "C13/iter-empty-pattern-repeats" } else { "C13/iter-duplicate-mapping" };
        return fail(sig, format!("subgraph_isomorphisms_iter{tag} yielded a mapping more than once (first {limit} items: {got:?})"));
    }
    let mut exp = sem.clone();
    exp.sort();
    ensure_eq!(sorted, exp, "C13/iter-set", "subgraph_isomorphisms_iter{tag}: set of mappings");
    obs.label_if(!sem.is_empty() && sem.len() < plain.len(), "predicates prune some embeddings");
    Ok((iso, sem))
}

fn run_ty<Ty: EdgeType>(c: &Case) -> Outcome {
    let (g0, g1) = build_pair(c);
    let mut obs = Obs::default();
    let (iso, sem) = check_pair::<Ty>(&g0, &g1, c, "", &mut obs)?;
    // metamorphic: relabel both arguments
    let q0 = perm_from_keys(&c.keys1, g0.n);
    let q1 = perm_from_keys(&c.keys1.iter().rev().copied().collect::<Vec<_>>(), g1.n);
    let (r0, r1) = (g0.relabel(&q0), g1.relabel(&q1));
    let (iso2, sem2) = check_pair::<Ty>(&r0, &r1, c, " (relabeled)", &mut obs)?;
    ensure_eq!(iso2, iso, "C13/relabel-invariance", "is_isomorphic after relabeling both arguments");
    ensure_eq!(sem2.len(), sem.len(), "C13/relabel-invariance", "number of embeddings after relabeling");

    // GraphMap storage for the purely structural functions
    if g0.nw.iter().all(|&w| w == 0) || c.npred == 0 {
        let mk = |g: &SG| {
            let mut m: GraphMap<u32, u8, Ty> = GraphMap::new();
            for i in 0..g.n {
                m.add_node(i as u32 * 3 + 1);
            }
            for i in 0..g.n {
                for j in 0..g.n {
                    if g.adj[i][j] && (g.directed || i <= j) {
                        m.add_edge(i as u32 * 3 + 1, j as u32 * 3 + 1, g.ew[i][j]);
                    }
                }
            }
            m
        };
        let (m0, m1) = (mk(&g0), mk(&g1));
        let plain = embeddings(&g0, &g1, 0, 0);
        ensure_eq!(is_isomorphic(&m0, &m1), g0.n == g1.n && !plain.is_empty(), "C13/is_isomorphic", "is_isomorphic on GraphMap");
        ensure_eq!(is_isomorphic_subgraph(&m0, &m1), !plain.is_empty(), "C13/is_isomorphic_subgraph", "is_isomorphic_subgraph on GraphMap");
        obs.label("GraphMap");
    }

    let undecided_by_counts = g0.n >= 3 && g1.n >= 3 && g0.n <= g1.n && g0.edge_count() <= g1.edge_count() && (g0.n < g1.n || g0.edge_count() == g1.edge_count());
    obs.nontrivial = undecided_by_counts;
    obs.label_if(iso, "isomorphic");
    obs.label_if(!sem.is_empty(), "embeds");
    obs.label_if(sem.is_empty() && undecided_by_counts, "near miss / negative");
    obs.label_if(g0.n == 0, "empty pattern");
    Ok(obs)
}

pub fn run(c: &Case) -> Outcome {
    if c.directed {
        run_ty::<Directed>(c)
    } else {
        run_ty::<Undirected>(c)
    }
}

/// bounded-exhaustive scope: every ordered pair of labelled digraphs on 1..=3 nodes and every pair of
/// labelled undirected graphs on 1..=4 nodes (loops included, one node / edge label); the thorough
/// tier adds every digraph on 4 nodes against every digraph on 1..=2 nodes
fn enum_count(tier: Tier) -> u64 {
    let d = small_graph_count(3, 0);
    let u = small_graph_count(0, 4);
    d * d + u * u + if tier == Tier::Thorough { (1u64 << 16) * small_graph_count(2, 0) } else { 0 }
}
fn enum_make(_tier: Tier, i: u64) -> Case {
    let d = small_graph_count(3, 0);
    let u = small_graph_count(0, 4);
    let (a, b) = if i < d * d {
        (small_graph(i / d, 3, 0).unwrap(), small_graph(i % d, 3, 0).unwrap())
    } else if i < d * d + u * u {
        let j = i - d * d;
        (small_graph(j / u, 0, 4).unwrap(), small_graph(j % u, 0, 4).unwrap())
    } else {
        let j = i - d * d - u * u;
        let small = small_graph_count(2, 0);
        ((true, 4, j / small), small_graph(j % small, 2, 0).unwrap())
    };
    // the larger graph is the target
    let (g1, g0) = if a.1 >= b.1 { (a, b) } else { (b, a) };
    Case {
        directed: g1.0,
        loops: true,
        kind: 0,
        n1: g1.1 as u8,
        adj1: g1.2,
        n0: g0.1 as u8,
        adj0: g0.2,
        subset: 0,
        keys0: vec![0; 8],
        keys1: vec![0; 8],
        sel: (0, 0, 0),
        nw: vec![0; 16],
        ew: 0,
        npred: 0,
        epred: 0,
        alphabet: 1,
    }
}

pub fn property() -> Property {
    Property {
        id: "C13",
        rule: "pairs of simple directed/undirected graphs (optional self-loops, n0 <= n1 <= 6 quick) with node weights from a 1-3 letter and edge weights from a 2 letter alphabet: independent pairs, relabeled induced subgraphs (positive), one-pair toggles and one-weight changes of those (near misses), degree-preserving 2-switches; predicates always-true / equality / asymmetric <=; every answer compared with exhaustive enumeration of injective maps, the iterator's output compared as a set with duplicate detection, and everything repeated after relabeling both arguments; non-trivial = both graphs >= 3 nodes and the answer not decided by the node/edge-count pre-checks; distinct by case fingerprint; bounded-exhaustive sub-check: every ordered pair of labelled digraphs on 1..=3 nodes and of undirected graphs on 1..=4 nodes (loops included)",
        assumptions: &["graphs are simple (the documented domain); the iterator is read with take(expected+3) so that a non-terminating iterator shows up as duplicates, not as a hang"],
        both_profiles: false,
        subs: vec![sub("vf2/pairs", 2_400_000, 40_000_000, strategy, run), sub_enum("vf2/all-pairs-of-small-graphs", enum_count, enum_make, run)],
    }
}
