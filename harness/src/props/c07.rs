//! C07 — generic algorithms depend only on the abstract graph, not on its representation.
//! Differential / metamorphic: the same abstract graph in many encodings (types, insertion orders,
//! index widths, vacancies, relabelings); answers are translated to labels, canonicalised and compared.

use crate::agraph::*;
use crate::engine::*;
use crate::util::{perm_from_keys, pick};
use petgraph::adj::List;
use petgraph::algo::articulation_points::articulation_points;
use petgraph::algo::dominators::simple_fast;
use petgraph::algo::{
    all_simple_paths, astar, bellman_ford, connected_components, dijkstra, dsatur_coloring, find_negative_cycle, floyd_warshall,
    greedy_feedback_arc_set, is_bipartite_undirected,
    ford_fulkerson, greedy_matching, has_path_connecting, is_cyclic_directed, is_cyclic_undirected, is_isomorphic,
    k_shortest_path, kosaraju_scc, maximal_cliques, maximum_matching, min_spanning_tree, min_spanning_tree_prim, page_rank,
    spfa, tarjan_scc, toposort, DfsSpace,
};
use petgraph::data::Element;
use petgraph::graph::{Graph, NodeIndex};
use petgraph::graph6::ToGraph6;
use petgraph::visit::{
    Bfs, Dfs, DfsPostOrder, EdgeCount, EdgeIndexable, EdgeRef, GetAdjacencyMatrix, GraphProp, IntoEdgeReferences,
    IntoEdges, IntoEdgesDirected, IntoNeighbors, IntoNeighborsDirected, IntoNodeIdentifiers, IntoNodeReferences,
    NodeCompactIndexable, NodeCount, NodeIndexable, Topo, Visitable, Walker,
};
use petgraph::{Directed, Undirected};
use proptest::prelude::*;
use serde::{Deserialize, Serialize};
use std::collections::hash_map::RandomState;
use std::collections::BTreeMap;
use std::hash::Hash;

#[derive(Debug, Clone, Serialize, Deserialize)]
pub struct Case {
    pub g: RawGraph,
    pub salt: u8,
    pub s: u16,
    pub t: u16,
    pub relabel: Vec<u16>,
    /// 0: weights 0..=9, 1: -4..=9 (negative-cost algorithms get these), 2: 1..=3
    pub wmode: u8,
}

pub fn strategy(tier: Tier) -> BoxedStrategy<Case> {
    let (n, m) = if tier == Tier::Quick { (9, 22) } else { (28, 90) };
    (raw_graph(1, n, m, None), any::<u8>(), any::<u16>(), any::<u16>(), proptest::collection::vec(any::<u16>(), n as usize), 0u8..3)
        .prop_map(|(g, salt, s, t, relabel, wmode)| Case { g, salt, s, t, relabel, wmode })
        .boxed()
}

trait Nid: Copy + Eq + Hash + std::fmt::Debug {}
impl<T: Copy + Eq + Hash + std::fmt::Debug> Nid for T {}

/// (algorithm, encoding) -> canonical answer in label space, or the panic message
pub struct Answers {
    rows: Vec<(&'static str, String, Result<String, String>)>,
    /// label translation of the encoding currently being evaluated (encoding label -> original label)
    back: Vec<usize>,
}

impl Answers {
    fn put(&mut self, alg: &'static str, enc: &str, f: impl FnOnce() -> String) {
        let r = guarded(f);
        self.rows.push((alg, enc.to_string(), r));
    }
}

fn lab<N: Nid>(v: &View<N>, back: &[usize], x: N) -> usize {
    back[*v.labels.get(&x).expect("node of the encoding")]
}

fn fmt_map<K: Ord + std::fmt::Debug, V: std::fmt::Debug>(m: BTreeMap<K, V>) -> String {
    format!("{m:?}")
}

// ---------------------------------------------------------------- algorithm groups

fn g_paths<G>(g: G, v: &View<G::NodeId>, enc: &str, ans: &mut Answers, s: usize, t: usize)
where
    G: IntoEdges + IntoNeighbors + Visitable + NodeCount + NodeIndexable + IntoNodeIdentifiers + Copy,
    G::NodeId: Nid,
    G::EdgeId: Eq + Hash,
    G::EdgeRef: EdgeRef<Weight = i32>,
{
    let back = ans.back.clone();
    let (s, t) = (back.iter().position(|&x| x == s).unwrap(), back.iter().position(|&x| x == t).unwrap());
    let l = |x: G::NodeId| lab(v, &back, x);
    let pos = |e: G::EdgeRef| (*e.weight()).unsigned_abs();
    ans.put("dijkstra", enc, || fmt_map(dijkstra(g, v.id(s), None, pos).into_iter().map(|(k, d)| (l(k), d)).collect()));
    ans.put("dijkstra-goal", enc, || format!("{:?}", dijkstra(g, v.id(s), Some(v.id(t)), pos).get(&v.id(t))));
    ans.put("astar", enc, || format!("{:?}", astar(g, v.id(s), |x| x == v.id(t), pos, |_| 0).map(|r| r.0)));
    ans.put("k_shortest_path", enc, || fmt_map(k_shortest_path(g, v.id(s), None, 2, pos).into_iter().map(|(k, d)| (l(k), d)).collect()));
    let directed = v.a.directed;
    ans.put("spfa", enc, || match spfa(g, v.id(s), |e| *e.weight() as i64) {
        Err(_) => "NegativeCycle".to_string(),
        Ok(p) => {
            // the predecessor table is not unique, but on every encoding it must be a shortest-path
            // tree: pred[x] = p means an edge p -> x with dist[p] + w = dist[x]
            for &x in &v.live {
                let (xi, d) = (g.to_index(v.id(x)), p.distances[g.to_index(v.id(x))]);
                match p.predecessors[xi] {
                    None => assert!(x == s || d == i64::MAX, "spfa: node {} has distance {d} but no predecessor", back[x]),
                    Some(q) => {
                        let dq = p.distances[g.to_index(q)];
                        let tight = g.edges(q).any(|e| {
                            let hit = (e.source() == q && e.target() == v.id(x)) || (!directed && e.target() == q && e.source() == v.id(x));
                            hit && dq != i64::MAX && dq + *e.weight() as i64 == d
                        });
                        assert!(tight, "spfa: predecessor {} of {} does not account for its distance {d} (dist[pred] = {dq})", l(q), back[x]);
                    }
                }
            }
            fmt_map(v.live.iter().map(|&x| (back[x], p.distances[g.to_index(v.id(x))])).collect())
        }
    });
    ans.put("astar-path-valid", enc, || match astar(g, v.id(s), |x| x == v.id(t), pos, |_| 0) {
        None => "None".to_string(),
        Some((cost, path)) => {
            assert!(path.first() == Some(&v.id(s)) && path.last() == Some(&v.id(t)), "astar: path endpoints");
            let mut sum = 0u32;
            for w in path.windows(2) {
                let best = g
                    .edges(w[0])
                    .filter(|e| (e.source() == w[0] && e.target() == w[1]) || (!directed && e.target() == w[0] && e.source() == w[1]))
                    .map(pos)
                    .min();
                sum += best.expect("astar: consecutive path nodes are not joined by an edge");
            }
            assert!(sum == cost, "astar: path costs {sum}, reported {cost}");
            "valid".to_string()
        }
    });
    ans.put("depth_first_search", enc, || {
        use petgraph::visit::{depth_first_search, Control, DfsEvent};
        // control flow decided by labels only (so it is the same abstract script on every encoding):
        // prune at Discover of every node whose label is 1 mod 3 (except the start)
        let n = v.a.n;
        let (mut disc, mut fin) = (vec![false; n], vec![false; n]);
        let mut stack: Vec<usize> = Vec::new();
        let mut events = 0usize;
        depth_first_search(g, Some(v.id(s)), |ev| {
            events += 1;
            assert!(events <= 4 * (n + 2 * v.a.m() + 4), "depth_first_search: event flood");
            match ev {
                DfsEvent::Discover(x, _) => {
                    let x = l(x);
                    assert!(!disc[x], "depth_first_search: {x} discovered twice");
                    disc[x] = true;
                    stack.push(x);
                    if x % 3 == 1 && stack.len() > 1 {
                        return Control::<()>::Prune;
                    }
                }
                DfsEvent::Finish(x, _) => {
                    let x = l(x);
                    assert!(stack.pop() == Some(x), "depth_first_search: Finish({x}) does not close the innermost open node");
                    fin[x] = true;
                }
                DfsEvent::TreeEdge(x, y) => assert!(stack.last() == Some(&l(x)) && !disc[l(y)], "depth_first_search: TreeEdge({}, {})", l(x), l(y)),
                DfsEvent::BackEdge(x, y) => {
                    assert!(stack.last() == Some(&l(x)) && stack.contains(&l(y)) && !fin[l(y)], "depth_first_search: BackEdge({}, {}) to a node that is not an open ancestor", l(x), l(y))
                }
                DfsEvent::CrossForwardEdge(x, y) => assert!(stack.last() == Some(&l(x)) && fin[l(y)], "depth_first_search: CrossForwardEdge({}, {}) to an unfinished node", l(x), l(y)),
            }
            Control::Continue
        });
        assert!(stack.is_empty() && disc == fin, "depth_first_search: discovered {disc:?} but finished {fin:?}");
        // reached set = nodes reachable through unpruned interior nodes: independent of the visiting order
        let x: Vec<usize> = (0..n).filter(|&i| disc[i]).collect();
        format!("{x:?}")
    });
    ans.put("tarjan_scc", enc, || {
        let mut c: Vec<Vec<usize>> = tarjan_scc(g).into_iter().map(|c| { let mut c: Vec<usize> = c.into_iter().map(l).collect(); c.sort(); c }).collect();
        c.sort();
        format!("{c:?}")
    });
    ans.put("has_path_connecting", enc, || {
        let mut m = BTreeMap::new();
        for &x in &v.live {
            for &y in &v.live {
                m.insert((back[x], back[y]), has_path_connecting(g, v.id(x), v.id(y), None));
            }
        }
        fmt_map(m)
    });
    ans.put("is_cyclic_directed", enc, || format!("{}", is_cyclic_directed(g)));
    let set = |it: Vec<G::NodeId>| {
        let mut x: Vec<usize> = it.into_iter().map(l).collect();
        x.sort();
        format!("{x:?}")
    };
    ans.put("Dfs", enc, || set(Dfs::new(g, v.id(s)).iter(g).take(v.a.n + 2).collect()));
    ans.put("Bfs", enc, || set(Bfs::new(g, v.id(s)).iter(g).take(v.a.n + 2).collect()));
    ans.put("DfsPostOrder", enc, || set(DfsPostOrder::new(g, v.id(s)).iter(g).take(v.a.n + 2).collect()));
    ans.put("dominators", enc, || {
        let d = simple_fast(g, v.id(s));
        fmt_map(v.live.iter().map(|&x| (back[x], d.immediate_dominator(v.id(x)).map(l))).collect())
    });
    ans.put("maximum_matching-size", enc, || {
        let m = maximum_matching(g);
        // validity on this encoding
        for &x in &v.live {
            if let Some(p) = m.mate(v.id(x)) {
                assert!(m.mate(p) == Some(v.id(x)), "mate not symmetric");
            }
        }
        if v.a.directed { "n/a (directed storage)".to_string() } else { format!("{}", m.len()) }
    });
    ans.put("greedy_matching-valid", enc, || {
        let m = greedy_matching(g);
        for &x in &v.live {
            if let Some(p) = m.mate(v.id(x)) {
                assert!(m.mate(p) == Some(v.id(x)) && p != v.id(x), "mate not symmetric");
            }
        }
        "valid".to_string()
    });
    if !directed && v.a.is_simple() && !v.a.edges.iter().any(|e| e.0 == e.1) {
        // a colouring is not unique (and DSatur is not optimal): proper on every encoding is what is comparable
        ans.put("dsatur_coloring-valid", enc, || {
            let (col, k) = dsatur_coloring(g);
            for &x in &v.live {
                let c = col.get(&v.id(x)).copied();
                assert!(c.map_or(false, |c| c < k), "dsatur_coloring: node {} has colour {c:?} with {k} colours reported", back[x]);
            }
            for &(x, y, _) in &v.a.edges {
                assert!(col[&v.id(x)] != col[&v.id(y)], "dsatur_coloring: adjacent nodes {} and {} share a colour", back[x], back[y]);
            }
            "valid".to_string()
        });
        ans.put("is_bipartite_undirected", enc, || format!("{}", is_bipartite_undirected(g, v.id(s))));
    }
    ans.put("page_rank", enc, || {
        let r = page_rank(g, 0.85f64, 12);
        let by_label: BTreeMap<usize, i64> = v.live.iter().map(|&x| (back[x], (r.get(g.to_index(v.id(x))).copied().unwrap_or(f64::NAN) * 1e6).round() as i64)).collect();
        fmt_map(by_label)
    });
}

fn g_directed<G>(g: G, v: &View<G::NodeId>, enc: &str, ans: &mut Answers, s: usize, t: usize)
where
    G: IntoNeighborsDirected + Visitable + NodeCount + IntoNodeIdentifiers + Copy,
    G::NodeId: Nid,
{
    let back = ans.back.clone();
    let (s, t) = (back.iter().position(|&x| x == s).unwrap(), back.iter().position(|&x| x == t).unwrap());
    let l = |x: G::NodeId| lab(v, &back, x);
    ans.put("kosaraju_scc", enc, || {
        let mut c: Vec<Vec<usize>> = kosaraju_scc(g).into_iter().map(|c| { let mut c: Vec<usize> = c.into_iter().map(l).collect(); c.sort(); c }).collect();
        c.sort();
        format!("{c:?}")
    });
    if v.a.directed {
        ans.put("toposort", enc, || match toposort(g, None) {
            Ok(o) => {
                let pos: BTreeMap<usize, usize> = o.iter().enumerate().map(|(i, &x)| (l(x), i)).collect();
                for &(x, y, _) in &v.a.edges {
                    assert!(pos[&back[x]] < pos[&back[y]], "toposort: edge backward");
                }
                format!("Ok({})", o.len())
            }
            Err(_) => "Cycle".to_string(),
        });
        ans.put("toposort-reused-workspace", enc, || {
            // one DfsSpace across toposort / has_path_connecting / toposort: same verdict as a fresh call
            let fresh = toposort(g, None).is_ok();
            let mut space = DfsSpace::new(g);
            let first = toposort(g, Some(&mut space)).is_ok();
            let reach = has_path_connecting(g, v.id(s), v.id(t), Some(&mut space));
            let second = toposort(g, Some(&mut space)).is_ok();
            assert!(first == fresh && second == fresh, "toposort with a reused DfsSpace: fresh {fresh}, first {first}, after has_path_connecting {second}");
            assert!(reach == has_path_connecting(g, v.id(s), v.id(t), None), "has_path_connecting with a reused DfsSpace");
            format!("{fresh} {reach}")
        });
        ans.put("Topo", enc, || {
            let mut x: Vec<usize> = Topo::new(g).iter(g).take(v.a.n + 2).map(l).collect();
            x.sort();
            format!("{x:?}")
        });
        if s != t {
            ans.put("all_simple_paths", enc, || {
                // on a multigraph every path is yielded once per choice of parallel edges: the number of
                // items is the same on every encoding, but a cut-off prefix is not - so a capped
                // enumeration is reported as such instead of being compared as a set
                const CAP: usize = 300_000;
                let mut p: Vec<Vec<usize>> = all_simple_paths::<Vec<_>, _, RandomState>(g, v.id(s), v.id(t), 0, Some(3)).take(CAP).map(|p| p.into_iter().map(l).collect()).collect();
                if p.len() == CAP {
                    return format!("at least {CAP} paths (not compared)");
                }
                p.sort();
                p.dedup();
                format!("{p:?}")
            });
        }
    }
}

fn g_edge_refs<G>(g: G, v: &View<G::NodeId>, enc: &str, ans: &mut Answers)
where
    G: IntoEdgeReferences + IntoNodeReferences + NodeIndexable + Copy,
    G::NodeId: Nid,
    G: petgraph::visit::Data<EdgeWeight = i32>,
    G::NodeWeight: Clone,
{
    ans.put("is_cyclic_undirected", enc, || format!("{}", is_cyclic_undirected(g)));
    ans.put("min_spanning_tree-weight", enc, || {
        let mut w = 0i64;
        let mut k = 0;
        let mut nodes = 0usize;
        for el in min_spanning_tree(g).take(3 * v.a.n + v.a.m() + 4) {
            match el {
                Element::Node { .. } => nodes += 1,
                Element::Edge { source, target, weight } => {
                    assert!(source < nodes && target < nodes, "min_spanning_tree: edge element ({source},{target}) names a position beyond the {nodes} node elements");
                    w += weight as i64;
                    k += 1;
                }
            }
        }
        assert!(nodes == v.a.n, "min_spanning_tree: {nodes} node elements for {} nodes", v.a.n);
        format!("{k} edges, weight {w}")
    });
}

fn g_compact<G>(g: G, enc: &str, ans: &mut Answers)
where
    G: NodeCompactIndexable + IntoEdgeReferences + Copy,
{
    ans.put("connected_components", enc, || format!("{}", connected_components(g)));
}

fn g_floyd<G>(g: G, v: &View<G::NodeId>, enc: &str, ans: &mut Answers)
where
    G: NodeCompactIndexable + IntoEdgeReferences + IntoNodeIdentifiers + GraphProp + Copy,
    G::NodeId: Nid,
    G::EdgeRef: EdgeRef<Weight = i32>,
{
    let back = ans.back.clone();
    ans.put("floyd_warshall", enc, || match floyd_warshall(g, |e| *e.weight() as i64) {
        Err(_) => "NegativeCycle".to_string(),
        Ok(m) => fmt_map(m.into_iter().map(|((x, y), d)| ((lab(v, &back, x), lab(v, &back, y)), d)).collect()),
    });
}

fn g_artic<G>(g: G, v: &View<G::NodeId>, enc: &str, ans: &mut Answers)
where
    G: IntoNodeReferences + IntoEdges + NodeIndexable + GraphProp + Copy,
    G: petgraph::visit::Data<EdgeWeight = i32>,
    G::NodeId: Nid,
    G::NodeWeight: Clone,
{
    if v.a.directed {
        return;
    }
    let back = ans.back.clone();
    // Prim spans the first node's component; which node is first depends on the encoding, so the
    // weight is only comparable on connected graphs - the element stream is validated on all
    let connected = v.a.wcc_ids().1 <= 1;
    ans.put("min_spanning_tree_prim", enc, || {
        use petgraph::visit::NodeRef;
        let ids: Vec<G::NodeId> = g.node_references().map(|r| r.id()).collect();
        let (mut w, mut k, mut nodes) = (0i64, 0usize, 0usize);
        for el in min_spanning_tree_prim(g).take(3 * v.a.n + v.a.m() + 4) {
            match el {
                Element::Node { .. } => nodes += 1,
                Element::Edge { source, target, weight } => {
                    assert!(source < ids.len() && target < ids.len(), "min_spanning_tree_prim: edge element ({source},{target}) names a position beyond the {} nodes", ids.len());
                    let (x, y) = (ids[source], ids[target]);
                    let real = g.edges(x).any(|e| ((e.source() == x && e.target() == y) || (e.source() == y && e.target() == x)) && *e.weight() == weight);
                    assert!(real, "min_spanning_tree_prim: element {}-{} with weight {weight} is not an edge of the graph", lab(v, &back, x), lab(v, &back, y));
                    w += weight as i64;
                    k += 1;
                }
            }
        }
        assert!(nodes == v.a.n, "min_spanning_tree_prim: {nodes} node elements for {} nodes", v.a.n);
        if connected {
            format!("{k} edges, weight {w}")
        } else {
            "valid (disconnected graph: the spanned component depends on the node order)".to_string()
        }
    });
    ans.put("articulation_points", enc, || {
        let mut x: Vec<usize> = articulation_points(g).into_iter().map(|x| lab(v, &back, x)).collect();
        x.sort();
        format!("{x:?}")
    });
}

fn g_flow<G>(g: G, v: &View<G::NodeId>, enc: &str, ans: &mut Answers, s: usize, t: usize)
where
    G: NodeCount + EdgeCount + IntoEdgesDirected + EdgeIndexable + NodeIndexable + petgraph::data::DataMap + Visitable + Copy,
    G: petgraph::visit::Data<EdgeWeight = u32>,
    G::NodeId: Nid,
{
    let back = ans.back.clone();
    let (s, t) = (back.iter().position(|&x| x == s).unwrap(), back.iter().position(|&x| x == t).unwrap());
    if s != t && v.a.directed {
        ans.put("ford_fulkerson-value", enc, || format!("{}", ford_fulkerson(g, v.id(s), v.id(t)).0));
    }
}

fn g_cliques<G>(g: G, v: &View<G::NodeId>, enc: &str, ans: &mut Answers)
where
    G: GetAdjacencyMatrix + IntoNodeIdentifiers + IntoNeighbors + Copy,
    G::NodeId: Nid,
{
    let back = ans.back.clone();
    ans.put("maximal_cliques", enc, || {
        let mut c: Vec<Vec<usize>> = maximal_cliques(g).into_iter().map(|c| { let mut c: Vec<usize> = c.into_iter().map(|x| lab(v, &back, x)).collect(); c.sort(); c }).collect();
        c.sort();
        format!("{c:?}")
    });
}

fn g_bellman<G>(g: G, v: &View<G::NodeId>, enc: &str, ans: &mut Answers, s: usize)
where
    G: NodeCount + IntoNodeIdentifiers + IntoEdges + NodeIndexable + Visitable + Copy,
    G: petgraph::visit::Data<EdgeWeight = f64>,
    G::NodeId: Nid,
{
    let back = ans.back.clone();
    let s = back.iter().position(|&x| x == s).unwrap();
    ans.put("bellman_ford", enc, || match bellman_ford(g, v.id(s)) {
        Err(_) => "NegativeCycle".to_string(),
        Ok(p) => {
            for &x in &v.live {
                let (xi, d) = (g.to_index(v.id(x)), p.distances[g.to_index(v.id(x))]);
                match p.predecessors[xi] {
                    None => assert!(x == s || d == f64::INFINITY, "bellman_ford: node {} has distance {d} but no predecessor", back[x]),
                    Some(q) => {
                        let dq = p.distances[g.to_index(q)];
                        let tight = g.edges(q).any(|e| {
                            let hit = (e.source() == q && e.target() == v.id(x)) || (!v.a.directed && e.target() == q && e.source() == v.id(x));
                            hit && dq + *e.weight() == d
                        });
                        assert!(tight, "bellman_ford: predecessor {} of {} does not account for its distance {d} (dist[pred] = {dq})", lab(v, &back, q), back[x]);
                    }
                }
            }
            fmt_map(v.live.iter().map(|&x| (back[x], format!("{}", p.distances[g.to_index(v.id(x))]))).collect())
        }
    });
    ans.put("find_negative_cycle", enc, || match find_negative_cycle(g, v.id(s)) {
        None => "false".to_string(),
        Some(cyc) => {
            // which cycle is returned depends on the encoding; that it is a closed walk of negative cost must not
            assert!(!cyc.is_empty(), "find_negative_cycle: empty cycle");
            let mut total = 0.0f64;
            for k in 0..cyc.len() {
                let (x, y) = (cyc[k], cyc[(k + 1) % cyc.len()]);
                let best = g
                    .edges(x)
                    .filter(|e| (e.source() == x && e.target() == y) || (!v.a.directed && e.source() == y && e.target() == x))
                    .map(|e| *e.weight())
                    .fold(f64::INFINITY, f64::min);
                assert!(best.is_finite(), "find_negative_cycle: consecutive nodes {} and {} of the returned cycle are not joined by an edge", lab(v, &back, x), lab(v, &back, y));
                total += best;
            }
            assert!(total < 0.0, "find_negative_cycle: the returned closed walk costs {total}");
            "true".to_string()
        }
    });
}

const NEG: &[&str] = &["spfa", "floyd_warshall", "bellman_ford", "find_negative_cycle"];

pub fn run(c: &Case) -> Outcome {
    let opts = match c.wmode % 3 {
        0 => GOpts::new(true, true, 0, 9),
        1 => GOpts::new(true, true, -4, 9),
        _ => GOpts::new(true, true, 1, 3),
    };
    let a0 = c.g.build(&opts);
    let n = a0.n;
    let salt = c.salt as u64 + 1;
    let s = pick(c.s, n);
    let t = pick(c.t, n);
    let simple = super::c10::simplified_min(&a0);
    let is_simple = simple.m() == a0.m();
    let loopfree = !a0.edges.iter().any(|e| e.0 == e.1);
    let mut ans = Answers { rows: Vec::new(), back: (0..n).collect() };
    let ident: Vec<usize> = (0..n).collect();

    // relabeled + reversed insertion order copy
    let perm = perm_from_keys(&c.relabel, n);
    let mut inv = vec![0; n];
    for (old, &new) in perm.iter().enumerate() {
        inv[new] = old;
    }
    let mut b = a0.relabel(&perm);
    b.edges.reverse();

    macro_rules! common {
        ($g:expr, $v:expr, $enc:expr) => {{
            g_paths($g, $v, $enc, &mut ans, s, t);
            g_edge_refs($g, $v, $enc, &mut ans);
            g_artic($g, $v, $enc, &mut ans);
        }};
    }
    macro_rules! per_type {
        ($ty:ty) => {{
            // E0 Graph u32, identity
            let g0: Graph<usize, i32, $ty, u32> = to_graph(&a0, |w| w);
            let v0 = View::full(&a0, (0..n).map(NodeIndex::new));
            ans.back = ident.clone();
            common!(&g0, &v0, "Graph<u32>");
            g_directed(&g0, &v0, "Graph<u32>", &mut ans, s, t);
            g_compact(&g0, "Graph<u32>", &mut ans);
            g_floyd(&g0, &v0, "Graph<u32>", &mut ans);
            // E1 Graph with a narrow index type (u8 while the edges fit, else u16), relabeled, reversed insertion order
            macro_rules! e1 {
                ($ix:ty, $name:expr) => {{
                    let g1: Graph<usize, i32, $ty, $ix> = to_graph(&b, |w| w);
                    let v1 = View::full(&b, (0..n).map(NodeIndex::new));
                    ans.back = inv.clone();
                    common!(&g1, &v1, $name);
                    g_directed(&g1, &v1, $name, &mut ans, s, t);
                    g_compact(&g1, $name, &mut ans);
                    g_floyd(&g1, &v1, $name, &mut ans);
                    if is_simple && !a0.directed && loopfree {
                        g_cliques(&g1, &v1, $name, &mut ans);
                    }
                    // VF2 is exponential on sparse symmetric graphs (25 nodes, 20 edges: > 10 min): small graphs only
                    if is_simple && n <= 10 {
                        ans.put("is_isomorphic(Graph, Graph relabeled)", "pair", || format!("{}", is_isomorphic(&g0, &g1)));
                    }
                }};
            }
            if b.m() < 250 {
                e1!(u8, "Graph<u8> relabeled+reversed insertion");
            } else {
                e1!(u16, "Graph<u16> relabeled+reversed insertion");
            }
            // E2 StableGraph with holes (identity labels), E2b relabeled with other holes
            let (g2, m2) = to_stable_holes::<i32, $ty, u32>(&a0, salt, |w| w);
            let v2 = View::full(&a0, m2);
            ans.back = ident.clone();
            common!(&g2, &v2, "StableGraph holes");
            g_directed(&g2, &v2, "StableGraph holes", &mut ans, s, t);
            if a0.directed {
                // a workspace sized for (or default-constructed before) the compact Graph, then used on the
                // encoding with vacancies (larger node_bound): every user has to size the maps itself
                for (name, default) in [("toposort-shared-workspace(new)", false), ("toposort-shared-workspace(default)", true)] {
                    ans.put(name, "Graph<u32> then StableGraph holes", || {
                        let mut space = if default { DfsSpace::default() } else { DfsSpace::new(&g0) };
                        let r0 = toposort(&g0, Some(&mut space)).is_ok();
                        let r2 = toposort(&g2, Some(&mut space)).is_ok();
                        let h2 = has_path_connecting(&g2, v2.id(s), v2.id(t), Some(&mut space));
                        let h0 = has_path_connecting(&g0, v0.id(s), v0.id(t), Some(&mut space));
                        assert!(r0 == r2 && h0 == h2, "shared DfsSpace: toposort {r0} / {r2}, has_path_connecting {h0} / {h2}");
                        format!("{r0} {h0}")
                    });
                }
            }
            let (g2b, m2b) = to_stable_holes::<i32, $ty, u16>(&b, salt + 5, |w| w);
            let v2b = View::full(&b, m2b);
            ans.back = inv.clone();
            common!(&g2b, &v2b, "StableGraph<u16> holes relabeled");
            g_directed(&g2b, &v2b, "StableGraph<u16> holes relabeled", &mut ans, s, t);
            // flows (u32 capacities = |w|)
            if a0.directed {
                let f0: Graph<usize, u32, $ty, u32> = to_graph(&a0, |w| w.unsigned_abs());
                ans.back = ident.clone();
                g_flow(&f0, &v0, "Graph<u32>", &mut ans, s, t);
                let (f2, fm2) = to_stable_holes::<u32, $ty, u32>(&a0, salt, |w| w.unsigned_abs());
                g_flow(&f2, &View::full(&a0, fm2), "StableGraph holes", &mut ans, s, t);
                if b.m() < 120 {
                    let (f2b, fm2b) = to_stable_holes::<u32, $ty, u8>(&b, salt + 9, |w| w.unsigned_abs());
                    ans.back = inv.clone();
                    g_flow(&f2b, &View::full(&b, fm2b), "StableGraph<u8> holes relabeled", &mut ans, s, t);
                }
            }
            // float encodings for bellman_ford
            {
                let h0: Graph<usize, f64, $ty, u32> = to_graph(&a0, |w| w as f64 * 0.25);
                ans.back = ident.clone();
                g_bellman(&h0, &v0, "Graph<u32>", &mut ans, s);
                let (h2, hm2) = to_stable_holes::<f64, $ty, u32>(&a0, salt, |w| w as f64 * 0.25);
                g_bellman(&h2, &View::full(&a0, hm2), "StableGraph holes", &mut ans, s);
                let h1: Graph<usize, f64, $ty, u16> = to_graph(&b, |w| w as f64 * 0.25);
                ans.back = inv.clone();
                g_bellman(&h1, &View::full(&b, (0..n).map(NodeIndex::<u16>::new)), "Graph<u16> relabeled", &mut ans, s);
            }
            if is_simple {
                // E3 GraphMap, E4 MatrixGraph holes, E5 Csr
                let g3 = to_graphmap::<i32, $ty>(&a0, |w| w);
                let v3 = View::full(&a0, (0..n).map(gm_key));
                ans.back = ident.clone();
                common!(&g3, &v3, "GraphMap");
                g_directed(&g3, &v3, "GraphMap", &mut ans, s, t);
                g_compact(&g3, "GraphMap", &mut ans);
                g_floyd(&g3, &v3, "GraphMap", &mut ans);
                let (g4, m4) = to_matrix_holes::<i32, $ty>(&a0, salt, |w| w);
                let v4 = View::full(&a0, m4);
                common!(&g4, &v4, "MatrixGraph holes");
                let g5 = to_csr::<i32, $ty>(&a0, |w| w);
                let v5 = View::full(&a0, (0..n).map(|i| i as u32));
                common!(&g5, &v5, "Csr");
                g_compact(&g5, "Csr", &mut ans);
                g_floyd(&g5, &v5, "Csr", &mut ans);
                let g5b = to_csr::<i32, $ty>(&b, |w| w);
                let v5b = View::full(&b, (0..n).map(|i| i as u32));
                ans.back = inv.clone();
                common!(&g5b, &v5b, "Csr relabeled");
                if !a0.directed && loopfree {
                    ans.back = ident.clone();
                    g_cliques(&g0, &v0, "Graph<u32>", &mut ans);
                    g_cliques(&g2, &v2, "StableGraph holes", &mut ans);
                    g_cliques(&g3, &v3, "GraphMap", &mut ans);
                    g_cliques(&g4, &v4, "MatrixGraph holes", &mut ans);
                    g_cliques(&&g5, &v5, "Csr", &mut ans);
                }
            }
        }};
    }
    if a0.directed {
        per_type!(Directed);
        {
            // a feedback arc set is not unique: removing it must leave an acyclic graph on every encoding
            let g0: Graph<usize, i32, Directed, u32> = to_graph(&a0, |w| w);
            let (g2, _) = to_stable_holes::<i32, Directed, u32>(&a0, salt, |w| w);
            ans.put("greedy_feedback_arc_set-valid", "Graph<u32>", || {
                let fas: std::collections::HashSet<_> = greedy_feedback_arc_set(&g0).map(|e| e.id()).collect();
                let mut h = g0.clone();
                h.retain_edges(|_, e| !fas.contains(&e));
                assert!(!is_cyclic_directed(&h), "removing the feedback arc set leaves a cycle");
                "valid".to_string()
            });
            ans.put("greedy_feedback_arc_set-valid", "StableGraph holes", || {
                let fas: std::collections::HashSet<_> = greedy_feedback_arc_set(&g2).map(|e| e.id()).collect();
                let mut h = g2.clone();
                h.retain_edges(|_, e| !fas.contains(&e));
                assert!(!is_cyclic_directed(&h), "removing the feedback arc set leaves a cycle");
                "valid".to_string()
            });
        }
        if is_simple {
            let (g4, m4) = to_matrix_holes::<i32, Directed>(&a0, salt, |w| w);
            ans.back = ident.clone();
            g_directed(&g4, &View::full(&a0, m4), "MatrixGraph holes", &mut ans, s, t);
        }
        // adj::List (directed, parallel edges allowed)
        let mut l: List<i32, u32> = List::new();
        for _ in 0..n {
            l.add_node();
        }
        for &(x, y, w) in &a0.edges {
            l.add_edge(x as u32, y as u32, w);
        }
        let vl = View::full(&a0, (0..n).map(|i| i as u32));
        ans.back = ident.clone();
        g_paths(&l, &vl, "adj::List", &mut ans, s, t);
        g_compact(&l, "adj::List", &mut ans);
        g_floyd(&l, &vl, "adj::List", &mut ans);
    } else {
        per_type!(Undirected);
        if is_simple && loopfree {
            // graph6: same node order => same string
            let g0: Graph<usize, i32, Undirected, u32> = to_graph(&a0, |w| w);
            ans.put("graph6_string", "Graph<u32>", || g0.graph6_string());
            let (g2, _) = to_stable_holes::<i32, Undirected, u32>(&a0, salt, |w| w);
            ans.put("graph6_string", "StableGraph holes", || g2.graph6_string());
            ans.put("graph6_string", "GraphMap", || to_graphmap::<i32, Undirected>(&a0, |w| w).graph6_string());
            let (g4, _) = to_matrix_holes::<i32, Undirected>(&a0, salt, |w| w);
            ans.put("graph6_string", "MatrixGraph holes", || g4.graph6_string());
            ans.put("graph6_string", "Csr", || to_csr::<i32, Undirected>(&a0, |w| w).graph6_string());
        }
    }

    // ---- compare ----
    let mut obs = Obs::default();
    let has_neg = a0.edges.iter().any(|e| e.2 < 0);
    let mut by_alg: BTreeMap<&'static str, Vec<(&String, &Result<String, String>)>> = BTreeMap::new();
    for (alg, enc, r) in &ans.rows {
        by_alg.entry(alg).or_default().push((enc, r));
    }
    for (alg, rows) in &by_alg {
        if !has_neg || NEG.contains(alg) || true {
            let first_ok = rows.iter().find(|r| r.1.is_ok());
            for (enc, r) in rows {
                match (r, first_ok) {
                    (Err(e), Some((enc0, _))) => {
                        return fail(
                            format!("C07/{alg}/panic-on-one-encoding"),
                            format!("{alg}: panicked on encoding [{enc}] ({e}) but succeeded on [{enc0}]; graph {a0:?}"),
                        )
                    }
                    (Err(e), None) => return fail(format!("C07/{alg}/panic-on-every-encoding"), format!("{alg}: panicked on every encoding, e.g. [{enc}]: {e}; graph {a0:?}")),
                    (Ok(x), Some((enc0, Ok(x0)))) if x != x0 => {
                        let with_holes = enc.contains("holes") || enc0.contains("holes");
                        let f = Failure {
                            sig: if *alg == "page_rank" && with_holes { "C07/page_rank/differs-on-encodings-with-index-holes".to_string() } else { format!("C07/{alg}/answers-differ") },
                            msg: format!("{alg}: [{enc0}] gives {x0} but [{enc}] gives {x}; graph {a0:?}, s={s}, t={t}"),
                        };
                        if *alg == "page_rank" && with_holes {
                            if obs.deferred.is_empty() {
                                obs.deferred.push(f);
                            }
                        } else {
                            return Err(f);
                        }
                    }
                    _ => {}
                }
            }
        }
    }
    obs.nontrivial = n >= 3 && a0.m() >= 2;
    obs.label_if(is_simple, "simple graph: all encodings");
    obs.label_if(has_neg, "negative weights");
    Ok(obs)
}

/// bounded-exhaustive scope: every labelled digraph on 1..=3 nodes and undirected graph on 1..=4 nodes
/// (loops included) x every (s, t) x the three weight ranges, relabeled by a rotation
fn enum_count(_tier: Tier) -> u64 {
    small_graph_count(3, 4) * 16 * 3
}
fn enum_make(_tier: Tier, i: u64) -> Case {
    let (dir, n, mask) = small_graph(i / 48, 3, 4).expect("index within the scope");
    let p = i % 48;
    let (s, t) = ((p % 4) as usize % n, (p / 4 % 4) as usize % n);
    Case {
        g: raw_explicit(dir, n, mask, (i % 253) as u8),
        salt: (i % 251) as u8,
        s: sel_for(s, n),
        t: sel_for(t, n),
        relabel: (0..28u16).map(|k| (k * 7 + (i % 5) as u16) % 5).collect(),
        wmode: (p / 16) as u8,
    }
}

pub fn property() -> Property {
    Property {
        id: "C07",
        rule: "one random abstract multigraph (1..=9 nodes quick, <=28 thorough; weights 0..9, -4..9 or 1..3) is stored as Graph<u32>, Graph<u8> relabeled with reversed insertion order, StableGraph with node and edge vacancies (two variants), and - when simple - GraphMap, MatrixGraph with reused ids, Csr (two variants), adj::List (directed); about 35 algorithms and walkers (dijkstra, dsatur_coloring, greedy_feedback_arc_set, is_bipartite_undirected, min_spanning_tree_prim, astar, k_shortest_path, spfa, bellman_ford, find_negative_cycle, floyd_warshall, SCCs, has_path_connecting, is_cyclic_*, connected_components, toposort, Topo, Dfs/Bfs/DfsPostOrder, dominators, articulation points, matchings, ford_fulkerson, MST, maximal_cliques, all_simple_paths, page_rank, is_isomorphic, graph6) run on every encoding that satisfies their bounds; answers are translated back to labels and must be identical where unique and equally valid/optimal otherwise (spfa / bellman_ford predecessor tables must be tight shortest-path trees, the astar path must cost what is reported, a label-scripted pruning depth_first_search must give a well-nested event stream and the order-independent reached set, toposort orders are validated); a panic on one encoding while another succeeds is a violation; non-trivial = >= 3 nodes and >= 2 edges (every case has encodings with node_bound > node_count and edge_bound > edge_count); distinct by case fingerprint; bounded-exhaustive sub-check: every labelled digraph on 1..=3 nodes and undirected graph on 1..=4 nodes (loops included) x every (s,t) x the three weight ranges",
        assumptions: &["correctness of the answers themselves is decided by C08-C16 and C20; this check only compares encodings"],
        both_profiles: false,
        subs: vec![sub("encodings/differential", 240_000, 1_500_000, strategy, run), sub_enum("encodings/all-small-graphs", enum_count, enum_make, run)],
    }
}
