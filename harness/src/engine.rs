//! Shared engine: seeded sharded proptest campaigns, shrinking, replay files,
//! known-findings protocol and evidence files.  See DESIGN.md section 2.1.

use proptest::strategy::BoxedStrategy;
use proptest::test_runner::{Config, RngSeed, TestCaseError, TestError, TestRunner};
use serde::de::DeserializeOwned;
use serde::{Deserialize, Serialize};
use std::collections::hash_map::DefaultHasher;
use std::collections::{BTreeMap, HashSet};
use std::fmt::Debug;
use std::hash::{Hash, Hasher};
use std::panic::{catch_unwind, AssertUnwindSafe};
use std::path::{Path, PathBuf};
use std::sync::atomic::{AtomicBool, AtomicU64, AtomicUsize, Ordering};
use std::sync::{Arc, Mutex};
use std::time::Instant;

pub const VERIF_DIR: &str = "/verif";

#[derive(Clone, Copy, PartialEq, Eq, Debug)]
pub enum Tier {
    Quick,
    Thorough,
}

impl Tier {
    pub fn name(self) -> &'static str {
        match self {
            Tier::Quick => "quick",
            Tier::Thorough => "thorough",
        }
    }
}

/// What the oracle reports for a case on which the property held.
#[derive(Default, Debug, Clone)]
pub struct Obs {
    pub nontrivial: bool,
    pub labels: Vec<&'static str>,
    /// failures that were noted while the rest of the case was still checked (used for sites with a
    /// known finding, so that one known defect does not hide the other checks of the same case)
    pub deferred: Vec<Failure>,
}

impl Obs {
    pub fn new(nontrivial: bool) -> Self {
        Obs {
            nontrivial,
            labels: Vec::new(),
            deferred: Vec::new(),
        }
    }
    pub fn label(&mut self, l: &'static str) {
        if !self.labels.contains(&l) {
            self.labels.push(l);
        }
    }
    pub fn label_if(&mut self, c: bool, l: &'static str) {
        if c {
            self.label(l)
        }
    }
}

#[derive(Debug, Clone)]
pub struct Failure {
    /// stable identification of *what* failed (used by the known-findings file)
    pub sig: String,
    /// human readable diagnosis
    pub msg: String,
}

pub type Outcome = Result<Obs, Failure>;

pub fn fail<T>(sig: impl Into<String>, msg: impl Into<String>) -> Result<T, Failure> {
    Err(Failure {
        sig: sig.into(),
        msg: msg.into(),
    })
}

#[macro_export]
macro_rules! ensure {
    ($cond:expr, $sig:expr, $($arg:tt)*) => {
        if !($cond) {
            return Err($crate::engine::Failure { sig: ($sig).to_string(), msg: format!($($arg)*) });
        }
    };
}

#[macro_export]
macro_rules! ensure_eq {
    ($a:expr, $b:expr, $sig:expr, $($arg:tt)*) => {
        {
            let (a, b) = (&$a, &$b);
            if a != b {
                return Err($crate::engine::Failure { sig: ($sig).to_string(),
                    msg: format!("{}: got {:?}, expected {:?}", format!($($arg)*), a, b) });
            }
        }
    };
}

/// Run `f`, turning a panic into Err(message).
pub fn guarded<T>(f: impl FnOnce() -> T) -> Result<T, String> {
    match catch_unwind(AssertUnwindSafe(f)) {
        Ok(v) => Ok(v),
        Err(p) => Err(panic_msg(&p)),
    }
}

pub fn panic_msg(p: &Box<dyn std::any::Any + Send>) -> String {
    if let Some(s) = p.downcast_ref::<&str>() {
        s.to_string()
    } else if let Some(s) = p.downcast_ref::<String>() {
        s.clone()
    } else {
        "<non-string panic>".to_string()
    }
}

/// Shorten a panic message into something usable inside a signature: digits are
/// replaced so that the same panic site with other numbers has the same signature.
pub fn panic_sig(msg: &str) -> String {
    let mut out = String::new();
    let mut last_hash = false;
    for c in msg.chars().take(80) {
        if c.is_ascii_digit() {
            if !last_hash {
                out.push('#');
            }
            last_hash = true;
        } else {
            last_hash = false;
            out.push(if c.is_whitespace() { '_' } else { c });
        }
    }
    out
}

pub struct Ctx {
    pub prop: &'static str,
    pub tier: Tier,
    pub seed: u64,
    pub scale: f64,
    pub shards: usize,
    pub profile: &'static str,
}

pub fn profile_name() -> &'static str {
    if cfg!(debug_assertions) {
        "assert"
    } else {
        "fast"
    }
}

#[derive(Serialize, Deserialize, Default, Debug, Clone)]
pub struct SubReport {
    pub name: String,
    pub profile: String,
    pub evaluations: u64,
    pub distinct_nontrivial: u64,
    pub excluded_known: BTreeMap<String, u64>,
    pub labels: BTreeMap<String, u64>,
    pub samples: Vec<serde_json::Value>,
    pub violation: Option<ViolationReport>,
    pub wall_s: f64,
}

#[derive(Serialize, Deserialize, Debug, Clone)]
pub struct ViolationReport {
    pub sig: String,
    pub msg: String,
    pub replay: String,
}

#[derive(Serialize, Deserialize, Debug, Clone)]
pub struct ReplayFile {
    pub property: String,
    pub sub: String,
    #[serde(default)]
    pub sig: String,
    #[serde(default)]
    pub msg: String,
    pub case: serde_json::Value,
}

#[derive(Serialize, Deserialize, Debug, Clone)]
pub struct KnownFinding {
    pub property: String,
    pub signature: String,
    pub status: String, // "open" | "fixed"
    #[serde(default)]
    pub commit: Option<String>,
    pub regress: String,
    pub what: String,
}

pub fn load_known() -> Vec<KnownFinding> {
    let p = Path::new(VERIF_DIR).join("known_findings.json");
    match std::fs::read_to_string(&p) {
        Ok(s) => serde_json::from_str(&s).expect("known_findings.json must parse"),
        Err(_) => Vec::new(),
    }
}

pub trait SubCheck: Send + Sync {
    fn name(&self) -> &str;
    /// Derive one case from raw bytes (proptest's pass-through RNG) and run it: the entry point of the
    /// libFuzzer targets.  None = the bytes gave no case or the case passed.
    fn run_from_bytes(&self, data: &[u8]) -> Option<(Failure, serde_json::Value)>;
    /// Write `count` cases drawn from the (quick-tier) strategy to `dir`, encoded for `run_from_bytes`.
    fn seed_corpus(&self, dir: &Path, count: usize, seed: u64) -> usize;
    fn campaign(&self, ctx: &Ctx, known_open: &HashSet<String>) -> SubReport;
    fn replay(&self, case: &serde_json::Value) -> Result<Outcome, String>;
}

pub struct Sub<C> {
    pub name: &'static str,
    /// number of cases in the quick tier (whole sub-check, all shards together)
    pub quick: u32,
    /// number of cases in the thorough tier
    pub thorough: u32,
    pub strategy: fn(Tier) -> BoxedStrategy<C>,
    pub run: fn(&C) -> Outcome,
    /// run the campaign in a child process so that a hard crash (allocation failure, abort,
    /// stack overflow) can be attributed to a case instead of killing the check
    pub isolate: bool,
    /// Fuzz entry only: bring a case decoded from arbitrary bytes into the domain of the strategy
    /// (clamp numeric fields, cap lengths); returning false discards the input.  None = every value
    /// of the case type is a legal case.
    pub domain: Option<fn(&mut C) -> bool>,
}

/// Strategy over cases decoded from generated byte strings with the libFuzzer codec (fuzzde) and
/// the sub-check's domain function: a second, differently distributed generator for the same
/// interpreter (all operation kinds equally likely, histories up to the thorough-tier length).
pub fn decoded_strategy<C>(domain: fn(&mut C) -> bool) -> BoxedStrategy<C>
where
    C: Debug + Clone + DeserializeOwned + 'static,
{
    use proptest::prelude::*;
    (proptest::collection::vec(any::<u8>(), 0..700), 0u8..3)
        .prop_filter_map("decodes to a case of the domain", move |(mut bytes, mode)| {
            if mode == 0 {
                // small values: short sequences, low selectors
                for (i, b) in bytes.iter_mut().enumerate() {
                    if i % 4 != 3 {
                        *b %= 24;
                    }
                }
            }
            let mut c: C = crate::fuzzde::decode(&bytes).ok()?;
            if domain(&mut c) {
                Some(c)
            } else {
                None
            }
        })
        .boxed()
}

/// like `sub`, with a domain function for the libFuzzer entry point (see `Sub::domain`)
pub fn sub_fuzz<C>(
    name: &'static str,
    quick: u32,
    thorough: u32,
    strategy: fn(Tier) -> BoxedStrategy<C>,
    run: fn(&C) -> Outcome,
    domain: fn(&mut C) -> bool,
) -> Box<dyn SubCheck>
where
    C: Debug + Clone + Serialize + DeserializeOwned + Send + Sync + 'static,
{
    Box::new(Sub { name, quick, thorough, strategy, run, isolate: false, domain: Some(domain) })
}

/// like `sub`, but crash-isolated (see `Sub::isolate`)
pub fn sub_isolated<C>(
    name: &'static str,
    quick: u32,
    thorough: u32,
    strategy: fn(Tier) -> BoxedStrategy<C>,
    run: fn(&C) -> Outcome,
) -> Box<dyn SubCheck>
where
    C: Debug + Clone + Serialize + DeserializeOwned + Send + Sync + 'static,
{
    Box::new(Sub { name, quick, thorough, strategy, run, isolate: true, domain: None })
}

pub fn sub<C>(
    name: &'static str,
    quick: u32,
    thorough: u32,
    strategy: fn(Tier) -> BoxedStrategy<C>,
    run: fn(&C) -> Outcome,
) -> Box<dyn SubCheck>
where
    C: Debug + Clone + Serialize + DeserializeOwned + Send + Sync + 'static,
{
    Box::new(Sub {
        name,
        quick,
        thorough,
        strategy,
        run,
        isolate: false,
        domain: None,
    })
}

fn mix(seed: u64, name: &str, shard: u64) -> u64 {
    // FNV-1a over the name, then splitmix-style finalisation: a pure function
    // of (VERIF_SEED, sub-check name, shard), independent of Rust's hasher keys.
    let mut h: u64 = 0xcbf29ce484222325;
    for b in name.bytes() {
        h ^= b as u64;
        h = h.wrapping_mul(0x100000001b3);
    }
    let mut z = h ^ seed.wrapping_mul(0x9E3779B97F4A7C15) ^ shard.wrapping_mul(0xD1B54A32D192ED03);
    z = (z ^ (z >> 30)).wrapping_mul(0xBF58476D1CE4E5B9);
    z = (z ^ (z >> 27)).wrapping_mul(0x94D049BB133111EB);
    z ^ (z >> 31)
}

fn fingerprint<C: Serialize>(c: &C) -> (u64, usize) {
    let bytes = bincode::serialize(c).unwrap_or_default();
    let mut h = DefaultHasher::new();
    bytes.hash(&mut h);
    (h.finish(), bytes.len())
}

/// like `run_case`, but a deferred failure counts as the failure of the case (replay / diagnosis)
pub fn run_case_strict<C>(run: fn(&C) -> Outcome, c: &C) -> Outcome {
    match run_case(run, c) {
        Ok(mut obs) if !obs.deferred.is_empty() => Err(obs.deferred.remove(0)),
        o => o,
    }
}

pub fn run_case<C>(run: fn(&C) -> Outcome, c: &C) -> Outcome {
    match catch_unwind(AssertUnwindSafe(|| run(c))) {
        Ok(o) => o,
        Err(p) => {
            let m = panic_msg(&p);
            Err(Failure {
                sig: format!("panic:{}", panic_sig(&m)),
                msg: format!("unexpected panic: {}", m),
            })
        }
    }
}

#[derive(Default)]
struct ShardAcc {
    evaluations: u64,
    fps: HashSet<u64>,
    excluded: BTreeMap<String, u64>,
    labels: BTreeMap<String, u64>,
    // (size, json) of non-trivial samples: first, and largest so far
    first: Option<serde_json::Value>,
    largest: Option<(usize, serde_json::Value)>,
    failed: Option<Failure>,
}

impl<C> SubCheck for Sub<C>
where
    C: Debug + Clone + Serialize + DeserializeOwned + Send + Sync + 'static,
{
    fn name(&self) -> &str {
        self.name
    }

    fn run_from_bytes(&self, data: &[u8]) -> Option<(Failure, serde_json::Value)> {
        // total structural decoding (see fuzzde.rs), then the sub-check's domain function
        let mut case: C = crate::fuzzde::decode(data).ok()?;
        if let Some(dom) = self.domain {
            if !dom(&mut case) {
                return None;
            }
        }
        match run_case_strict(self.run, &case) {
            Ok(_) => None,
            Err(f) => Some((f, serde_json::to_value(&case).unwrap_or(serde_json::Value::Null))),
        }
    }

    fn seed_corpus(&self, dir: &Path, count: usize, seed: u64) -> usize {
        use proptest::strategy::{Strategy, ValueTree};
        let mut cfg = Config::default();
        cfg.failure_persistence = None;
        cfg.rng_seed = RngSeed::Fixed(mix(seed, self.name, 0xF0));
        let mut runner = TestRunner::new(cfg);
        let strat = (self.strategy)(Tier::Quick);
        let _ = std::fs::create_dir_all(dir);
        let mut written = 0;
        for i in 0..count * 4 {
            if written >= count {
                break;
            }
            let Ok(tree) = strat.new_tree(&mut runner) else { continue };
            let case = tree.current();
            let Ok(bytes) = crate::fuzzde::encode(&case) else { continue };
            // only cases the decoder gives back unchanged and the domain function accepts
            let Ok(mut back) = crate::fuzzde::decode::<C>(&bytes) else { continue };
            if let Some(dom) = self.domain {
                if !dom(&mut back) {
                    continue;
                }
            }
            if fingerprint(&back).0 != fingerprint(&case).0 {
                continue;
            }
            if std::fs::write(dir.join(format!("seed-{}-{i:03}", self.name.replace('/', "_"))), &bytes).is_ok() {
                written += 1;
            }
        }
        written
    }

    fn replay(&self, case: &serde_json::Value) -> Result<Outcome, String> {
        let c: C = serde_json::from_value(case.clone()).map_err(|e| format!("cannot decode case: {e}"))?;
        Ok(run_case_strict(self.run, &c))
    }

    fn campaign(&self, ctx: &Ctx, known_open: &HashSet<String>) -> SubReport {
        if self.isolate && std::env::var("PGCHECK_CHILD").is_err() {
            return self.campaign_isolated(ctx);
        }
        let caselog: Option<PathBuf> = if self.isolate { std::env::var("PGCHECK_CASELOG").ok().map(PathBuf::from) } else { None };
        let t0 = Instant::now();
        let total = match ctx.tier {
            Tier::Quick => self.quick,
            Tier::Thorough => self.thorough,
        };
        let total = ((total as f64) * ctx.scale).ceil().max(1.0) as u32;
        let shards = ctx.shards.max(1).min(total as usize);
        let per = (total as usize + shards - 1) / shards;
        let hang_ms: u64 = std::env::var("PGCHECK_HANG_S").ok().and_then(|s| s.parse::<u64>().ok()).unwrap_or(120) * 1000;

        // The workers are detached threads (everything they need is 'static or shared through an Arc),
        // so that a case that never terminates can be abandoned: the campaign then reports what the
        // other shards found, or "inconclusive", instead of waiting for the outer watchdog.
        let shared: Arc<Shared<C>> = Arc::new(Shared {
            shards: (0..shards).map(|_| ShardState::default()).collect(),
            stop_above: AtomicUsize::new(usize::MAX),
            known_open: known_open.clone(),
        });
        let (name, run, strategy, tier, seed) = (self.name, self.run, self.strategy, ctx.tier, ctx.seed);
        for shard in 0..shards {
            let shared = shared.clone();
            let caselog = caselog.clone();
            std::thread::Builder::new()
                .stack_size(64 << 20)
                .spawn(move || {
                    let st = &shared.shards[shard];
                    let known_open = &shared.known_open;
                    let mut cfg = Config::default();
                    cfg.cases = per as u32;
                    cfg.failure_persistence = None;
                    cfg.rng_seed = RngSeed::Fixed(mix(seed, name, shard as u64));
                    cfg.max_shrink_iters = 2_000_000;
                    cfg.max_shrink_time = 45_000; // ms: shrinking is bounded by time (cases cost microseconds to 100 ms), not by a small iteration count
                    cfg.max_global_rejects = 1 << 20;
                    cfg.max_local_rejects = 1 << 20;
                    cfg.verbose = 0;
                    cfg.source_file = None;
                    let mut runner = TestRunner::new(cfg);
                    let strat = strategy(tier);
                    let res = runner.run(&strat, |case: C| {
                        let failed_already = st.acc.lock().unwrap().failed.is_some();
                        if !failed_already && shared.stop_above.load(Ordering::Relaxed) < shard {
                            // a lower shard has a failure to report: this shard's remaining cases are skipped
                            return Ok(());
                        }
                        if let Some(dir) = &caselog {
                            // crash attribution: the case about to run is on disk
                            let _ = std::fs::write(dir.join(format!("{shard}.json")), serde_json::to_vec(&case).unwrap_or_default());
                        }
                        *st.current.lock().unwrap() = Some(case.clone());
                        st.heartbeat.store(t0.elapsed().as_millis() as u64 + 1, Ordering::Relaxed);
                        let mut out = run_case(run, &case);
                        st.heartbeat.store(0, Ordering::Relaxed);
                        let mut acc = st.acc.lock().unwrap();
                        let acc = &mut *acc;
                        // deferred failures: known ones are counted and dropped, an unknown one fails the case
                        if let Ok(obs) = &mut out {
                            let deferred = std::mem::take(&mut obs.deferred);
                            let mut unknown = None;
                            for f in deferred {
                                if known_open.contains(&f.sig) {
                                    if acc.failed.is_none() {
                                        *acc.excluded.entry(f.sig.clone()).or_default() += 1;
                                    }
                                } else if unknown.is_none() {
                                    unknown = Some(f);
                                }
                            }
                            if let Some(f) = unknown {
                                out = Err(f);
                            }
                        }
                        if acc.failed.is_some() {
                            // shrinking phase: no counting
                            return match out {
                                Err(f) if !known_open.contains(&f.sig) => Err(TestCaseError::fail(f.sig)),
                                _ => Ok(()),
                            };
                        }
                        acc.evaluations += 1;
                        match out {
                            Ok(obs) => {
                                for l in &obs.labels {
                                    *acc.labels.entry(l.to_string()).or_default() += 1;
                                }
                                if obs.nontrivial {
                                    let (fp, size) = fingerprint(&case);
                                    if acc.fps.insert(fp) {
                                        if acc.first.is_none() {
                                            acc.first = serde_json::to_value(&case).ok();
                                        }
                                        if acc.largest.as_ref().map_or(true, |(s, _)| size > *s) && acc.fps.len() % 7 == 1 {
                                            acc.largest = serde_json::to_value(&case).ok().map(|v| (size, v));
                                        }
                                    }
                                }
                                Ok(())
                            }
                            Err(f) => {
                                if known_open.contains(&f.sig) {
                                    *acc.excluded.entry(f.sig.clone()).or_default() += 1;
                                    Ok(())
                                } else {
                                    let sig = f.sig.clone();
                                    acc.failed = Some(f);
                                    *st.unshrunk.lock().unwrap() = Some(case.clone());
                                    shared.stop_above.fetch_min(shard, Ordering::Relaxed);
                                    Err(TestCaseError::fail(sig))
                                }
                            }
                        }
                    });
                    let minimal = match res {
                        Ok(()) => None,
                        Err(TestError::Fail(_, c)) => Some(c),
                        Err(TestError::Abort(r)) => {
                            eprintln!("[{}] shard {} aborted: {}", name, shard, r);
                            None
                        }
                    };
                    *st.minimal.lock().unwrap() = minimal;
                    st.done.store(true, Ordering::Release);
                })
                .expect("spawn");
        }

        // wait for the shards; a shard whose current case has been running for `hang_ms` is abandoned
        let mut hung: Vec<usize> = Vec::new();
        loop {
            let now = t0.elapsed().as_millis() as u64 + 1;
            hung.clear();
            let mut pending = 0;
            for (i, st) in shared.shards.iter().enumerate() {
                if st.done.load(Ordering::Acquire) {
                    continue;
                }
                let hb = st.heartbeat.load(Ordering::Relaxed);
                if hb != 0 && now.saturating_sub(hb) > hang_ms {
                    hung.push(i);
                } else {
                    pending += 1;
                }
            }
            if pending == 0 {
                break;
            }
            if !hung.is_empty() && shared.shards.iter().any(|st| st.unshrunk.lock().unwrap().is_some()) {
                // there is a failure to report and a shard that does not come back: stop waiting
                shared.stop_above.store(0, Ordering::Relaxed);
                std::thread::sleep(std::time::Duration::from_millis(2000));
                break;
            }
            std::thread::sleep(std::time::Duration::from_millis(if t0.elapsed().as_millis() < 2000 { 5 } else { 50 }));
        }

        let mut rep = SubReport {
            name: self.name.to_string(),
            profile: ctx.profile.to_string(),
            ..Default::default()
        };
        let mut fps: HashSet<u64> = HashSet::new();
        for (shard, st) in shared.shards.iter().enumerate() {
            let finished = st.done.load(Ordering::Acquire);
            // a hung shard still owns its accumulator only between cases: try_lock, never block
            let acc = match st.acc.try_lock() {
                Ok(mut g) => std::mem::take(&mut *g),
                Err(_) => ShardAcc::default(),
            };
            let minimal: Option<C> = if finished {
                st.minimal.lock().unwrap().take()
            } else {
                // not finished (hung, possibly while shrinking): report the failing case as generated
                st.unshrunk.lock().unwrap().clone()
            };
            if !finished && minimal.is_none() {
                let dir = Path::new(VERIF_DIR).join("failures").join(ctx.prop);
                let _ = std::fs::create_dir_all(&dir);
                let mut where_ = String::from("(case not available)");
                if let Ok(g) = st.current.try_lock() {
                    if let Some(c) = &*g {
                        let (fp, _) = fingerprint(c);
                        let path = dir.join(format!("{}-hang-{:016x}.json", self.name.replace('/', "_"), fp));
                        let rf = ReplayFile {
                            property: ctx.prop.to_string(),
                            sub: self.name.to_string(),
                            sig: "hang:case-did-not-terminate".into(),
                            msg: format!("this case had been running for more than {} s when the campaign gave up on it", hang_ms / 1000),
                            case: serde_json::to_value(c).unwrap_or(serde_json::Value::Null),
                        };
                        let _ = std::fs::write(&path, serde_json::to_string_pretty(&rf).unwrap());
                        where_ = path.to_string_lossy().into_owned();
                    }
                }
                eprintln!("[{}] shard {} abandoned: its current case did not terminate within {} s; saved as {}", self.name, shard, hang_ms / 1000, where_);
                rep.labels.insert(format!("INCONCLUSIVE: a case of {} did not terminate within {} s (saved: {})", self.name, hang_ms / 1000, where_), 1);
            }
            rep.evaluations += acc.evaluations;
            fps.extend(acc.fps);
            for (k, v) in acc.excluded {
                *rep.excluded_known.entry(k).or_default() += v;
            }
            for (k, v) in acc.labels {
                *rep.labels.entry(k).or_default() += v;
            }
            if rep.samples.len() < 2 {
                if let Some(f) = acc.first {
                    rep.samples.push(f);
                }
            }
            if rep.samples.len() < 4 {
                if let Some((_, l)) = acc.largest {
                    rep.samples.push(l);
                }
            }
            if let (Some(c), None) = (minimal, &rep.violation) {
                // diagnose the minimal case again to get its own message (a shard that was abandoned
                // reports the failure it recorded: re-running its case might not come back either)
                let f = if finished {
                    match run_case_strict(self.run, &c) {
                        Err(f) => f,
                        Ok(_) => acc.failed.clone().unwrap_or(Failure { sig: "flaky".into(), msg: "minimal case passed when re-run".into() }),
                    }
                } else {
                    let mut f = acc.failed.clone().unwrap_or(Failure { sig: "unknown".into(), msg: "failure recorded by an abandoned shard".into() });
                    f.msg.push_str(" [not shrunk: a case tried while shrinking did not terminate]");
                    f
                };
                let path = write_replay(ctx.prop, self.name, &f, &c);
                rep.violation = Some(ViolationReport { sig: f.sig, msg: f.msg, replay: path.to_string_lossy().into_owned() });
            }
        }
        if rep.violation.is_some() {
            // a violation outranks "inconclusive"
            rep.labels.retain(|k, _| !k.starts_with("INCONCLUSIVE"));
        }
        rep.distinct_nontrivial = fps.len() as u64;
        rep.wall_s = t0.elapsed().as_secs_f64();
        rep
    }
}

struct ShardState<C> {
    /// 0 = between cases, else ms since campaign start (+1) at which the current case started
    heartbeat: AtomicU64,
    done: AtomicBool,
    current: Mutex<Option<C>>,
    /// the failing case as generated, set when the shard first fails (before shrinking)
    unshrunk: Mutex<Option<C>>,
    minimal: Mutex<Option<C>>,
    acc: Mutex<ShardAcc>,
}

impl<C> Default for ShardState<C> {
    fn default() -> Self {
        ShardState {
            heartbeat: AtomicU64::new(0),
            done: AtomicBool::new(false),
            current: Mutex::new(None),
            unshrunk: Mutex::new(None),
            minimal: Mutex::new(None),
            acc: Mutex::new(ShardAcc::default()),
        }
    }
}

struct Shared<C> {
    shards: Vec<ShardState<C>>,
    /// shards with an index above this skip their remaining cases (a lower shard has failed)
    stop_above: AtomicUsize,
    known_open: HashSet<String>,
}

impl<C> Sub<C>
where
    C: Debug + Clone + Serialize + DeserializeOwned + Send + Sync + 'static,
{
    /// Run this sub-check's campaign in a child process; if the child dies (abort, allocation
    /// failure, stack overflow), find the case that kills a fresh process and report it.
    fn campaign_isolated(&self, ctx: &Ctx) -> SubReport {
        let t0 = Instant::now();
        let exe = std::env::current_exe().expect("current_exe");
        let dir = std::env::temp_dir().join(format!("pgcheck-caselog-{}-{}", std::process::id(), self.name.replace('/', "_")));
        let _ = std::fs::remove_dir_all(&dir);
        let _ = std::fs::create_dir_all(&dir);
        let out = std::process::Command::new(&exe)
            .args(["run", ctx.prop, ctx.tier.name(), "--emit-json", "--only", self.name])
            .env("PGCHECK_CHILD", "1")
            .env("PGCHECK_CASELOG", &dir)
            .output();
        let mut rep = SubReport { name: self.name.to_string(), profile: ctx.profile.to_string(), ..Default::default() };
        match out {
            Ok(o) if o.status.success() => {
                if let Ok(mut v) = serde_json::from_slice::<Vec<SubReport>>(&o.stdout) {
                    if let Some(r) = v.drain(..).find(|r| r.name == self.name) {
                        rep = r;
                    }
                }
            }
            Ok(o) => {
                let tail: String = String::from_utf8_lossy(&o.stderr).lines().rev().take(4).collect::<Vec<_>>().join(" | ");
                eprintln!("[{}] child process died ({:?}): {}", self.name, o.status, tail);
                // which of the cases that were in flight kills a fresh process?
                let mut found = None;
                if let Ok(rd) = std::fs::read_dir(&dir) {
                    for e in rd.flatten() {
                        let st = std::process::Command::new(&exe).args(["run-case", ctx.prop, self.name]).arg(e.path()).env("PGCHECK_CHILD", "1").output();
                        if let Ok(st) = st {
                            if !st.status.success() && st.status.code() != Some(1) {
                                let msg: String = String::from_utf8_lossy(&st.stderr).lines().rev().take(3).collect::<Vec<_>>().join(" | ");
                                found = Some((e.path(), format!("{:?}: {}", st.status, msg)));
                                break;
                            }
                        }
                    }
                }
                match found {
                    Some((path, msg)) => {
                        let case: serde_json::Value = std::fs::read(&path).ok().and_then(|b| serde_json::from_slice(&b).ok()).unwrap_or(serde_json::Value::Null);
                        let f = Failure { sig: "abort:process-killed-by-this-case".into(), msg: format!("running this case kills the process (not a catchable panic): {msg}") };
                        let rdir = Path::new(VERIF_DIR).join("failures").join(ctx.prop);
                        let _ = std::fs::create_dir_all(&rdir);
                        let mut h = DefaultHasher::new();
                        case.to_string().hash(&mut h);
                        let rpath = rdir.join(format!("{}-abort-{:016x}.json", self.name.replace('/', "_"), h.finish()));
                        let rf = ReplayFile { property: ctx.prop.to_string(), sub: self.name.to_string(), sig: f.sig.clone(), msg: f.msg.clone(), case };
                        let _ = std::fs::write(&rpath, serde_json::to_string_pretty(&rf).unwrap());
                        rep.evaluations = 1;
                        rep.violation = Some(ViolationReport { sig: f.sig, msg: f.msg, replay: rpath.to_string_lossy().into_owned() });
                    }
                    None => {
                        // could not attribute the crash: inconclusive (reported by the caller as exit 2)
                        rep.labels.insert("INCONCLUSIVE: child process died and no in-flight case reproduces it".into(), 1);
                    }
                }
            }
            Err(e) => {
                eprintln!("cannot start child process: {e}");
                rep.labels.insert("INCONCLUSIVE: cannot start child process".into(), 1);
            }
        }
        let _ = std::fs::remove_dir_all(&dir);
        rep.wall_s = t0.elapsed().as_secs_f64();
        rep
    }
}

/// `pgcheck run-case <prop> <sub> <case.json>`: run one case in this process (used for crash attribution
/// and for replaying cases that kill the process).  Exit 0 pass, 1 failure, anything else = the process died.
pub fn run_case_file(props: &[Property], prop: &str, sub: &str, path: &Path) -> i32 {
    let Some(p) = props.iter().find(|p| p.id == prop) else { return 2 };
    let Some(sc) = p.subs.iter().find(|s| s.name() == sub) else { return 2 };
    let Ok(bytes) = std::fs::read(path) else { return 2 };
    let Ok(v) = serde_json::from_slice::<serde_json::Value>(&bytes) else { return 2 };
    match sc.replay(&v) {
        Ok(Ok(_)) => 0,
        Ok(Err(f)) => {
            eprintln!("{}: {}", f.sig, f.msg);
            1
        }
        Err(_) => 2,
    }
}

// ------------------------------------------------------------------------------------------------
// Bounded-exhaustive sub-checks: every case of an enumerated small scope (e.g. every labelled graph
// on up to 4 nodes x every encoding x every start node) instead of a random sample of it.

pub struct EnumSub<C> {
    pub name: &'static str,
    /// number of cases of the scope (tier-dependent)
    pub count: fn(Tier) -> u64,
    /// the i-th case, 0 <= i < count
    pub make: fn(Tier, u64) -> C,
    pub run: fn(&C) -> Outcome,
}

pub fn sub_enum<C>(name: &'static str, count: fn(Tier) -> u64, make: fn(Tier, u64) -> C, run: fn(&C) -> Outcome) -> Box<dyn SubCheck>
where
    C: Debug + Clone + Serialize + DeserializeOwned + Send + Sync + 'static,
{
    Box::new(EnumSub { name, count, make, run })
}

impl<C> SubCheck for EnumSub<C>
where
    C: Debug + Clone + Serialize + DeserializeOwned + Send + Sync + 'static,
{
    fn name(&self) -> &str {
        self.name
    }
    fn run_from_bytes(&self, _data: &[u8]) -> Option<(Failure, serde_json::Value)> {
        None
    }
    fn seed_corpus(&self, _dir: &Path, _count: usize, _seed: u64) -> usize {
        0
    }
    fn replay(&self, case: &serde_json::Value) -> Result<Outcome, String> {
        let c: C = serde_json::from_value(case.clone()).map_err(|e| format!("cannot decode case: {e}"))?;
        Ok(run_case_strict(self.run, &c))
    }
    fn campaign(&self, ctx: &Ctx, known_open: &HashSet<String>) -> SubReport {
        let t0 = Instant::now();
        let total = (self.count)(ctx.tier);
        let shards = ctx.shards.max(1) as u64;
        let (make, run, tier) = (self.make, self.run, ctx.tier);
        // lowest failing index wins (deterministic); shards stop looking beyond it
        let best: Arc<AtomicU64> = Arc::new(AtomicU64::new(u64::MAX));
        let mut handles = Vec::new();
        for shard in 0..shards {
            let best = best.clone();
            let known_open = known_open.clone();
            handles.push(
                std::thread::Builder::new()
                    .stack_size(64 << 20)
                    .spawn(move || {
                        let mut acc = ShardAcc::default();
                        let mut fail: Option<(u64, Failure)> = None;
                        let mut i = shard;
                        while i < total {
                            if i > best.load(Ordering::Relaxed) {
                                break;
                            }
                            let case = make(tier, i);
                            let mut out = run_case(run, &case);
                            if let Ok(obs) = &mut out {
                                for f in std::mem::take(&mut obs.deferred) {
                                    if known_open.contains(&f.sig) {
                                        *acc.excluded.entry(f.sig.clone()).or_default() += 1;
                                    } else {
                                        out = Err(f);
                                        break;
                                    }
                                }
                            }
                            acc.evaluations += 1;
                            match out {
                                Ok(obs) => {
                                    for l in &obs.labels {
                                        *acc.labels.entry(l.to_string()).or_default() += 1;
                                    }
                                    if obs.nontrivial {
                                        // enumerated cases are distinct by construction
                                        acc.fps.insert(i);
                                        if acc.first.is_none() {
                                            acc.first = serde_json::to_value(&case).ok();
                                        }
                                        if acc.fps.len() % 4099 == 1 {
                                            acc.largest = serde_json::to_value(&case).ok().map(|v| (i as usize, v));
                                        }
                                    }
                                }
                                Err(f) if known_open.contains(&f.sig) => {
                                    *acc.excluded.entry(f.sig.clone()).or_default() += 1;
                                }
                                Err(f) => {
                                    best.fetch_min(i, Ordering::Relaxed);
                                    fail = Some((i, f));
                                    break;
                                }
                            }
                            i += shards;
                        }
                        (acc, fail)
                    })
                    .expect("spawn"),
            );
        }
        let mut rep = SubReport { name: self.name.to_string(), profile: ctx.profile.to_string(), ..Default::default() };
        let mut fails: Vec<(u64, Failure)> = Vec::new();
        let mut nontrivial = 0u64;
        for h in handles {
            let (acc, fail) = h.join().expect("enumeration shard panicked");
            rep.evaluations += acc.evaluations;
            nontrivial += acc.fps.len() as u64;
            for (k, v) in acc.excluded {
                *rep.excluded_known.entry(k).or_default() += v;
            }
            for (k, v) in acc.labels {
                *rep.labels.entry(k).or_default() += v;
            }
            if rep.samples.len() < 2 {
                if let Some(f) = acc.first {
                    rep.samples.push(f);
                }
            }
            if rep.samples.len() < 4 {
                if let Some((_, l)) = acc.largest {
                    rep.samples.push(l);
                }
            }
            fails.extend(fail);
        }
        if let Some((i, f)) = fails.into_iter().min_by_key(|x| x.0) {
            let c = make(tier, i);
            let f = Failure { sig: f.sig, msg: format!("{} [case {i} of the enumeration of {total}]", f.msg) };
            let path = write_replay(ctx.prop, self.name, &f, &c);
            rep.violation = Some(ViolationReport { sig: f.sig, msg: f.msg, replay: path.to_string_lossy().into_owned() });
        }
        rep.labels.insert(format!("exhaustive scope: {total} cases"), 1);
        rep.distinct_nontrivial = nontrivial;
        rep.wall_s = t0.elapsed().as_secs_f64();
        rep
    }
}

fn write_replay<C: Serialize>(prop: &str, sub: &str, f: &Failure, c: &C) -> PathBuf {
    let dir = Path::new(VERIF_DIR).join("failures").join(prop);
    let _ = std::fs::create_dir_all(&dir);
    let (fp, _) = fingerprint(c);
    let path = dir.join(format!("{}-{:016x}.json", sub.replace('/', "_"), fp));
    let rf = ReplayFile {
        property: prop.to_string(),
        sub: sub.to_string(),
        sig: f.sig.clone(),
        msg: f.msg.clone(),
        case: serde_json::to_value(c).unwrap_or(serde_json::Value::Null),
    };
    let _ = std::fs::write(&path, serde_json::to_string_pretty(&rf).unwrap());
    path
}

pub struct Property {
    pub id: &'static str,
    pub rule: &'static str,
    pub assumptions: &'static [&'static str],
    pub both_profiles: bool,
    pub subs: Vec<Box<dyn SubCheck>>,
}

pub fn replay_file(props: &[Property], path: &Path) -> Result<(String, String, Outcome), String> {
    let s = std::fs::read_to_string(path).map_err(|e| format!("{}: {e}", path.display()))?;
    let rf: ReplayFile = serde_json::from_str(&s).map_err(|e| format!("{}: {e}", path.display()))?;
    let p = props
        .iter()
        .find(|p| p.id == rf.property)
        .ok_or_else(|| format!("unknown property {}", rf.property))?;
    let sc = p
        .subs
        .iter()
        .find(|s| s.name() == rf.sub)
        .ok_or_else(|| format!("unknown sub-check {}", rf.sub))?;
    Ok((rf.property.clone(), rf.sub.clone(), sc.replay(&rf.case)?))
}

/// Run one property: replay tier, campaigns, evidence.  Returns the process exit code.
pub fn run_property(props: &[Property], id: &str, tier: Tier, emit_json: bool, only: Option<&str>) -> i32 {
    let t0 = Instant::now();
    let p = match props.iter().find(|p| p.id == id) {
        Some(p) => p,
        None => {
            eprintln!("unknown property {id}");
            return 2;
        }
    };
    let seed: u64 = std::env::var("VERIF_SEED")
        .ok()
        .and_then(|s| s.trim().parse::<i64>().ok().map(|v| v as u64))
        .unwrap_or(0);
    let scale: f64 = std::env::var("PGCHECK_SCALE").ok().and_then(|s| s.parse().ok()).unwrap_or(1.0);
    let shards: usize = std::env::var("PGCHECK_SHARDS").ok().and_then(|s| s.parse().ok()).unwrap_or(16);
    let ctx = Ctx {
        prop: p.id,
        tier,
        seed,
        scale,
        shards,
        profile: profile_name(),
    };
    let known = load_known();
    let known_open: HashSet<String> = known
        .iter()
        .filter(|k| k.property == id && k.status == "open")
        .map(|k| k.signature.clone())
        .collect();
    let mut violations: Vec<ViolationReport> = Vec::new();
    let mut known_lines: Vec<String> = Vec::new();
    let mut replayed = 0u64;

    // ---- replay tier: pinned reproductions (known findings + regress dir) ----
    if !emit_json {
        let mut files: Vec<PathBuf> = Vec::new();
        let dir = Path::new(VERIF_DIR).join("regress").join(id);
        if let Ok(rd) = std::fs::read_dir(&dir) {
            for e in rd.flatten() {
                if e.path().extension().map_or(false, |x| x == "json") {
                    files.push(e.path());
                }
            }
        }
        files.sort();
        let mut open_seen: HashSet<String> = HashSet::new();
        for f in &files {
            replayed += 1;
            // pinned cases that kill the process are replayed in a child process
            let pinned: Option<ReplayFile> = std::fs::read_to_string(f).ok().and_then(|s| serde_json::from_str(&s).ok());
            if let Some(rf) = pinned.filter(|rf| rf.sig.starts_with("abort:")) {
                let tmp = std::env::temp_dir().join(format!("pgcheck-pinned-{}.json", std::process::id()));
                let _ = std::fs::write(&tmp, rf.case.to_string());
                let st = std::process::Command::new(std::env::current_exe().expect("exe")).args(["run-case", &rf.property, &rf.sub]).arg(&tmp).env("PGCHECK_CHILD", "1").output();
                let _ = std::fs::remove_file(&tmp);
                if !st.map(|o| o.status.success()).unwrap_or(false) {
                    violations.push(ViolationReport { sig: rf.sig.clone(), msg: format!("pinned case still fails / kills the process: {}", rf.msg), replay: f.to_string_lossy().into_owned() });
                }
                continue;
            }
            match replay_file(props, f) {
                Err(e) => {
                    eprintln!("replay error: {e}");
                    return 2;
                }
                Ok((_, _, Ok(_))) => {}
                Ok((_, _, Err(fl))) => {
                    if known_open.contains(&fl.sig) {
                        if open_seen.insert(fl.sig.clone()) {
                            let what = known
                                .iter()
                                .find(|k| k.property == id && k.signature == fl.sig)
                                .map(|k| k.what.clone())
                                .unwrap_or_default();
                            known_lines.push(format!(
                                "KNOWN-FINDING: property={} signature={} {} (pinned: {})",
                                id,
                                fl.sig,
                                what,
                                f.display()
                            ));
                        }
                    } else {
                        violations.push(ViolationReport {
                            sig: fl.sig,
                            msg: fl.msg,
                            replay: f.to_string_lossy().into_owned(),
                        });
                    }
                }
            }
        }
        for k in known.iter().filter(|k| k.property == id && k.status == "open") {
            if !open_seen.contains(&k.signature) {
                eprintln!(
                    "note: open known finding {} did not reproduce from its pinned case {}",
                    k.signature, k.regress
                );
            }
        }
    }

    // ---- campaigns ----
    let mut reports: Vec<SubReport> = Vec::new();
    for sc in &p.subs {
        if let Some(o) = only {
            if !sc.name().contains(o) {
                continue;
            }
        }
        let rep = sc.campaign(&ctx, &known_open);
        eprintln!(
            "[{} {} {}] {:<34} cases={:<8} nontrivial={:<8} excluded_known={} {:.1}s{}",
            id,
            tier.name(),
            ctx.profile,
            rep.name,
            rep.evaluations,
            rep.distinct_nontrivial,
            rep.excluded_known.values().sum::<u64>(),
            rep.wall_s,
            if rep.violation.is_some() { "  ** VIOLATION **" } else { "" }
        );
        reports.push(rep);
    }

    if emit_json {
        println!("{}", serde_json::to_string(&reports).unwrap());
        return 0;
    }

    // ---- second profile (C02, C17): run the sibling binary built without debug assertions ----
    if p.both_profiles {
        if let Ok(bin) = std::env::var("PGCHECK_FAST_BIN") {
            let mut cmd = std::process::Command::new(&bin);
            cmd.arg("run").arg(id).arg(tier.name()).arg("--emit-json");
            if let Some(o) = only {
                cmd.arg("--only").arg(o);
            }
            match cmd.output() {
                Ok(out) if out.status.success() => {
                    eprint!("{}", String::from_utf8_lossy(&out.stderr));
                    match serde_json::from_slice::<Vec<SubReport>>(&out.stdout) {
                        Ok(v) => reports.extend(v),
                        Err(e) => {
                            eprintln!("cannot parse fast-profile report: {e}");
                            return 2;
                        }
                    }
                }
                Ok(out) => {
                    eprint!("{}", String::from_utf8_lossy(&out.stderr));
                    eprintln!("fast-profile run failed: {:?}", out.status);
                    return 2;
                }
                Err(e) => {
                    eprintln!("cannot start {bin}: {e}");
                    return 2;
                }
            }
        } else {
            eprintln!("note: PGCHECK_FAST_BIN not set; only the {} profile was run", ctx.profile);
        }
    }

    for r in &reports {
        if let Some(v) = &r.violation {
            violations.push(v.clone());
        }
    }

    // ---- evidence ----
    let evaluations: u64 = reports.iter().map(|r| r.evaluations).sum::<u64>() + replayed;
    let distinct: u64 = reports.iter().map(|r| r.distinct_nontrivial).sum();
    let mut samples: Vec<serde_json::Value> = Vec::new();
    for r in &reports {
        for s in r.samples.iter().take(2) {
            samples.push(serde_json::json!({"sub": r.name, "profile": r.profile, "case": s}));
        }
    }
    let excluded: u64 = reports.iter().map(|r| r.excluded_known.values().sum::<u64>()).sum();
    let per_sub: Vec<serde_json::Value> = reports
        .iter()
        .map(|r| {
            serde_json::json!({
                "sub": r.name, "profile": r.profile, "evaluations": r.evaluations,
                "distinct_nontrivial": r.distinct_nontrivial, "labels": r.labels,
                "excluded_known": r.excluded_known, "wall_s": r.wall_s,
            })
        })
        .collect();
    let ev = serde_json::json!({
        "property_id": id,
        "tier": tier.name(),
        "seed": seed as i64,
        "level": "exploration",
        "coverage": {
            "evaluations": evaluations,
            "distinct_nontrivial": distinct,
            "rule": p.rule,
            "samples": samples,
            "replayed_pinned_cases": replayed,
            "excluded_known": excluded,
            "sub_checks": per_sub,
            "profiles": reports.iter().map(|r| r.profile.clone()).collect::<std::collections::BTreeSet<_>>(),
            "known_findings_reproduced": known_lines,
            "violations": violations.iter().map(|v| serde_json::json!({"sig": v.sig, "msg": v.msg, "replay": v.replay})).collect::<Vec<_>>(),
        },
        "assumptions": p.assumptions,
        "wall_s": t0.elapsed().as_secs_f64(),
        "violations": violations.len(),
    });
    let evdir = Path::new(VERIF_DIR).join("evidence");
    let _ = std::fs::create_dir_all(&evdir);
    if only.is_none() {
        if let Err(e) = std::fs::write(evdir.join(format!("{id}.json")), serde_json::to_string_pretty(&ev).unwrap()) {
            eprintln!("cannot write evidence: {e}");
            return 2;
        }
    }

    for l in &known_lines {
        println!("{l}");
    }
    if !violations.is_empty() {
        for v in &violations {
            println!("VIOLATION property={} replay={}", id, v.replay);
            println!("  signature: {}", v.sig);
            println!("  {}", v.msg);
        }
        return 1;
    }
    if let Some(l) = reports.iter().flat_map(|r| r.labels.keys()).find(|l| l.starts_with("INCONCLUSIVE")) {
        eprintln!("{l}");
        return 2;
    }
    // generator health: a property whose campaigns produced almost no non-trivial case is inconclusive
    if distinct < 2 && only.is_none() {
        eprintln!("generator health: fewer than 2 distinct non-trivial cases");
        return 2;
    }
    println!(
        "OK property={} tier={} cases={} distinct_nontrivial={} excluded_known={} wall={:.1}s",
        id,
        tier.name(),
        evaluations,
        distinct,
        excluded,
        t0.elapsed().as_secs_f64()
    );
    0
}

/// Entry point for the libFuzzer targets under /verif/fuzz: run sub-check `sub` of property `prop` on the
/// case derived from `data`; a failure whose signature is not an open known finding panics (after
/// writing a replay file under /verif/failures/<prop>/).
/// libfuzzer-sys installs a panic hook that aborts the process, but the checks provoke and catch
/// panics on purpose (documented panics, `guarded`): replace it, once, by a silent hook.  A real
/// failure ends the process explicitly (see `fuzz_one`).
pub fn fuzz_init() {
    static ONCE: std::sync::Once = std::sync::Once::new();
    ONCE.call_once(|| {
        std::panic::set_hook(Box::new(|_| {}));
    });
}

pub fn fuzz_one(props: &[Property], prop: &str, sub: &str, data: &[u8]) {
    fuzz_init();
    let p = props.iter().find(|p| p.id == prop).expect("property");
    let sc = p.subs.iter().find(|s| s.name() == sub).expect("sub-check");
    if let Some((f, case)) = sc.run_from_bytes(data) {
        let known = load_known();
        if known.iter().any(|k| k.property == prop && k.status == "open" && k.signature == f.sig) {
            return;
        }
        let dir = Path::new(VERIF_DIR).join("failures").join(prop);
        let _ = std::fs::create_dir_all(&dir);
        let mut h = DefaultHasher::new();
        case.to_string().hash(&mut h);
        let path = dir.join(format!("{}-fuzz-{:016x}.json", sub.replace('/', "_"), h.finish()));
        let rf = ReplayFile { property: prop.to_string(), sub: sub.to_string(), sig: f.sig.clone(), msg: f.msg.clone(), case };
        let _ = std::fs::write(&path, serde_json::to_string_pretty(&rf).unwrap());
        eprintln!("VIOLATION property={} replay={}", prop, path.display());
        eprintln!("  signature: {}\n  {}", f.sig, f.msg);
        std::process::abort();
    }
}
