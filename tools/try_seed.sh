#!/bin/sh
# try_seed.sh <patch.diff> <Cxx> [tier]: apply a seeded change to /repo, run the check, undo it straight afterwards.
P=$1; ID=$2; TIER=${3:-quick}
cd /repo || exit 2
if [ -n "$(git status --porcelain --untracked-files=no)" ]; then echo "/repo not clean"; exit 2; fi
git apply "$P" || { echo "patch does not apply"; exit 2; }
cd /verif && ./check "$ID" "$TIER"; rc=$?
git -C /repo checkout -- .
echo "try_seed $P $ID rc=$rc"
exit $rc
