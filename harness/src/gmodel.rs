//! Reference multigraph ("slot model") shared by C01 (Graph) and C02 (StableGraph), a thin
//! uniform view of both real types, and the full observation comparison that is run after
//! every operation.  Written from the rustdoc of the two types only.

use crate::engine::Failure;
use petgraph::graph::{EdgeIndex, Graph, IndexType, NodeIndex};
use petgraph::stable_graph::StableGraph;
use petgraph::visit::{EdgeRef, IntoEdgeReferences, IntoNodeReferences};
use petgraph::Direction::{self, Incoming, Outgoing};
use petgraph::EdgeType;

/// weights carry an immutable unique tag and a mutable value
pub type W = [u32; 2];

#[derive(Clone, Debug, PartialEq)]
pub struct MEdge {
    pub w: W,
    pub src: usize,
    pub dst: usize,
    /// insertion sequence number; None = order relative to other edges not documented
    /// (edge came out of filter_map / a conversion)
    pub seq: Option<u64>,
}

#[derive(Clone, Debug, PartialEq)]
pub struct Model {
    pub directed: bool,
    pub nodes: Vec<Option<W>>,
    pub edges: Vec<Option<MEdge>>,
    pub next_tag: u32,
    pub next_seq: u64,
}

impl Model {
    pub fn new(directed: bool) -> Self {
        Model { directed, nodes: Vec::new(), edges: Vec::new(), next_tag: 1, next_seq: 1 }
    }
    pub fn fresh(&mut self) -> W {
        self.next_tag += 1;
        [self.next_tag, 0]
    }
    pub fn seq(&mut self) -> Option<u64> {
        self.next_seq += 1;
        Some(self.next_seq)
    }
    pub fn node_live(&self, a: usize) -> bool {
        self.nodes.get(a).map_or(false, |n| n.is_some())
    }
    pub fn edge_live(&self, e: usize) -> bool {
        self.edges.get(e).map_or(false, |n| n.is_some())
    }
    pub fn live_nodes(&self) -> Vec<usize> {
        (0..self.nodes.len()).filter(|&i| self.nodes[i].is_some()).collect()
    }
    pub fn live_edges(&self) -> Vec<usize> {
        (0..self.edges.len()).filter(|&i| self.edges[i].is_some()).collect()
    }
    pub fn node_count(&self) -> usize {
        self.nodes.iter().filter(|n| n.is_some()).count()
    }
    pub fn edge_count(&self) -> usize {
        self.edges.iter().filter(|n| n.is_some()).count()
    }
    pub fn node_bound(&self) -> usize {
        self.nodes.iter().rposition(|n| n.is_some()).map_or(0, |p| p + 1)
    }
    pub fn edge_bound(&self) -> usize {
        self.edges.iter().rposition(|n| n.is_some()).map_or(0, |p| p + 1)
    }
    /// does edge e join a -> b (either orientation if undirected)
    pub fn joins(&self, e: usize, a: usize, b: usize) -> bool {
        match self.edges.get(e) {
            Some(Some(ed)) => (ed.src == a && ed.dst == b) || (!self.directed && ed.src == b && ed.dst == a),
            _ => false,
        }
    }
    pub fn find(&self, a: usize, b: usize) -> Option<usize> {
        (0..self.edges.len()).find(|&e| self.joins(e, a, b))
    }
    /// Incident edge list of `a` as (edge, source-as-reported, target-as-reported), following the
    /// documented conventions.  For directed graphs the list is ordered most recently added first
    /// where the order is known (known-order edges first).
    pub fn incident(&self, a: usize, dir: Direction) -> Vec<(usize, usize, usize)> {
        let mut out: Vec<(usize, usize, usize, Option<u64>)> = Vec::new();
        if !self.node_live(a) {
            return Vec::new();
        }
        for (e, ed) in self.edges.iter().enumerate() {
            let Some(ed) = ed else { continue };
            if self.directed {
                match dir {
                    Outgoing if ed.src == a => out.push((e, a, ed.dst, ed.seq)),
                    Incoming if ed.dst == a => out.push((e, ed.src, a, ed.seq)),
                    _ => {}
                }
            } else if ed.src == a || ed.dst == a {
                let other = if ed.src == a { ed.dst } else { ed.src };
                match dir {
                    Outgoing => out.push((e, a, other, ed.seq)),
                    Incoming => out.push((e, other, a, ed.seq)),
                }
            }
        }
        out.sort_by(|x, y| match (x.3, y.3) {
            (Some(p), Some(q)) => q.cmp(&p),
            (Some(_), None) => std::cmp::Ordering::Less,
            (None, Some(_)) => std::cmp::Ordering::Greater,
            (None, None) => x.0.cmp(&y.0),
        });
        out.into_iter().map(|t| (t.0, t.1, t.2)).collect()
    }
    /// number of leading entries of incident(a, dir) whose relative order is documented
    pub fn ordered_prefix(&self, a: usize, dir: Direction) -> usize {
        if !self.directed || !self.node_live(a) {
            return 0;
        }
        self.edges
            .iter()
            .flatten()
            .filter(|ed| ed.seq.is_some() && ((dir == Outgoing && ed.src == a) || (dir == Incoming && ed.dst == a)))
            .count()
    }

    // ---- mutations shared by the interpreters ----

    /// Graph semantics: the last edge adopts index e
    pub fn swap_remove_edge(&mut self, e: usize) -> Option<MEdge> {
        if e >= self.edges.len() {
            return None;
        }
        self.edges.swap_remove(e)
    }
    /// Graph semantics: incident edges go (order of the swaps unspecified: caller re-synchronises
    /// edge numbering from the tags), the last node adopts index a
    pub fn swap_remove_node(&mut self, a: usize) -> Option<W> {
        if a >= self.nodes.len() {
            return None;
        }
        self.edges.retain(|ed| ed.as_ref().map_or(true, |ed| ed.src != a && ed.dst != a));
        let w = self.nodes.swap_remove(a);
        let old_last = self.nodes.len();
        for ed in self.edges.iter_mut().flatten() {
            if ed.src == old_last {
                ed.src = a;
            }
            if ed.dst == old_last {
                ed.dst = a;
            }
        }
        w
    }
    /// StableGraph semantics
    pub fn vacate_node(&mut self, a: usize) -> Option<W> {
        let w = self.nodes.get_mut(a)?.take()?;
        for slot in self.edges.iter_mut() {
            if slot.as_ref().map_or(false, |ed| ed.src == a || ed.dst == a) {
                *slot = None;
            }
        }
        Some(w)
    }
    pub fn vacate_edge(&mut self, e: usize) -> Option<MEdge> {
        self.edges.get_mut(e)?.take()
    }
    pub fn reverse(&mut self) {
        for ed in self.edges.iter_mut().flatten() {
            std::mem::swap(&mut ed.src, &mut ed.dst);
        }
    }
    pub fn forget_order(&mut self) {
        for ed in self.edges.iter_mut().flatten() {
            ed.seq = None;
        }
    }
}

/// Uniform view of `Graph` and `StableGraph` through their inherent methods.
pub trait GLike {
    /// upper limit on the items read from any iterator (a corrupted structure may loop)
    fn v_cap(&self) -> usize;
    /// largest index value the index type can express
    fn v_max_index(&self) -> usize;
    fn v_node_count(&self) -> usize;
    fn v_edge_count(&self) -> usize;
    fn v_is_directed(&self) -> bool;
    fn v_node_weight(&self, a: usize) -> Option<W>;
    fn v_edge_weight(&self, e: usize) -> Option<W>;
    fn v_edge_endpoints(&self, e: usize) -> Option<(usize, usize)>;
    fn v_node_indices(&self) -> Vec<usize>;
    fn v_edge_indices(&self) -> Vec<usize>;
    fn v_node_weights(&self) -> Vec<W>;
    fn v_edge_weights(&self) -> Vec<W>;
    fn v_node_references(&self) -> Vec<(usize, W)>;
    fn v_edge_references(&self) -> Vec<(usize, usize, usize, W)>;
    fn v_neighbors(&self, a: usize) -> Vec<usize>;
    fn v_neighbors_directed(&self, a: usize, d: Direction) -> Vec<usize>;
    fn v_neighbors_undirected(&self, a: usize) -> Vec<usize>;
    fn v_edges(&self, a: usize) -> Vec<(usize, usize, usize, W)>;
    fn v_edges_directed(&self, a: usize, d: Direction) -> Vec<(usize, usize, usize, W)>;
    fn v_edges_connecting(&self, a: usize, b: usize) -> Vec<(usize, usize, usize, W)>;
    fn v_find_edge(&self, a: usize, b: usize) -> Option<usize>;
    fn v_contains_edge(&self, a: usize, b: usize) -> bool;
    fn v_find_edge_undirected(&self, a: usize, b: usize) -> Option<(usize, Direction)>;
    fn v_externals(&self, d: Direction) -> Vec<usize>;
    /// the four whole-graph iterators consumed from the back (DoubleEndedIterator), and, mixed: one item
    /// from the front then the rest from the back
    fn v_rev_iters(&self) -> (Vec<usize>, Vec<usize>, Vec<(usize, W)>, Vec<(usize, usize, usize, W)>, Vec<usize>);
    /// size hints (lower, upper) of node_indices, edge_indices, node_references, edge_references
    fn v_size_hints(&self) -> Vec<(usize, Option<usize>)>;
    /// detached walker started from neighbors_directed / neighbors_undirected: (edge, node) via next(),
    /// nodes via next_node(), edges via next_edge()
    fn v_walk(&self, a: usize, d: Option<Direction>) -> (Vec<(usize, usize)>, Vec<usize>, Vec<usize>);
}

macro_rules! impl_glike {
    ($ty:ident) => {
        impl<Ty: EdgeType, Ix: IndexType> GLike for $ty<W, W, Ty, Ix> {
            fn v_cap(&self) -> usize {
                4 * (self.node_count() + self.edge_count()) + 64
            }
            fn v_max_index(&self) -> usize {
                <Ix as IndexType>::max().index()
            }
            fn v_node_count(&self) -> usize {
                self.node_count()
            }
            fn v_edge_count(&self) -> usize {
                self.edge_count()
            }
            fn v_is_directed(&self) -> bool {
                self.is_directed()
            }
            fn v_node_weight(&self, a: usize) -> Option<W> {
                self.node_weight(NodeIndex::new(a)).copied()
            }
            fn v_edge_weight(&self, e: usize) -> Option<W> {
                self.edge_weight(EdgeIndex::new(e)).copied()
            }
            fn v_edge_endpoints(&self, e: usize) -> Option<(usize, usize)> {
                self.edge_endpoints(EdgeIndex::new(e)).map(|(a, b)| (a.index(), b.index()))
            }
            fn v_node_indices(&self) -> Vec<usize> {
                self.node_indices().take(self.v_cap()).map(|x| x.index()).collect()
            }
            fn v_edge_indices(&self) -> Vec<usize> {
                self.edge_indices().take(self.v_cap()).map(|x| x.index()).collect()
            }
            fn v_node_weights(&self) -> Vec<W> {
                self.node_weights().take(self.v_cap()).copied().collect()
            }
            fn v_edge_weights(&self) -> Vec<W> {
                self.edge_weights().take(self.v_cap()).copied().collect()
            }
            fn v_node_references(&self) -> Vec<(usize, W)> {
                IntoNodeReferences::node_references(self).take(self.v_cap()).map(|(i, w)| (i.index(), *w)).collect()
            }
            fn v_edge_references(&self) -> Vec<(usize, usize, usize, W)> {
                IntoEdgeReferences::edge_references(self).take(self.v_cap()).map(|e| (e.id().index(), e.source().index(), e.target().index(), *e.weight())).collect()
            }
            fn v_neighbors(&self, a: usize) -> Vec<usize> {
                self.neighbors(NodeIndex::new(a)).take(self.v_cap()).map(|x| x.index()).collect()
            }
            fn v_neighbors_directed(&self, a: usize, d: Direction) -> Vec<usize> {
                self.neighbors_directed(NodeIndex::new(a), d).take(self.v_cap()).map(|x| x.index()).collect()
            }
            fn v_neighbors_undirected(&self, a: usize) -> Vec<usize> {
                self.neighbors_undirected(NodeIndex::new(a)).take(self.v_cap()).map(|x| x.index()).collect()
            }
            fn v_edges(&self, a: usize) -> Vec<(usize, usize, usize, W)> {
                self.edges(NodeIndex::new(a)).take(self.v_cap()).map(|e| (e.id().index(), e.source().index(), e.target().index(), *e.weight())).collect()
            }
            fn v_edges_directed(&self, a: usize, d: Direction) -> Vec<(usize, usize, usize, W)> {
                self.edges_directed(NodeIndex::new(a), d).take(self.v_cap()).map(|e| (e.id().index(), e.source().index(), e.target().index(), *e.weight())).collect()
            }
            fn v_edges_connecting(&self, a: usize, b: usize) -> Vec<(usize, usize, usize, W)> {
                self.edges_connecting(NodeIndex::new(a), NodeIndex::new(b))
                    .take(self.v_cap())
                    .map(|e| (e.id().index(), e.source().index(), e.target().index(), *e.weight()))
                    .collect()
            }
            fn v_find_edge(&self, a: usize, b: usize) -> Option<usize> {
                self.find_edge(NodeIndex::new(a), NodeIndex::new(b)).map(|e| e.index())
            }
            fn v_contains_edge(&self, a: usize, b: usize) -> bool {
                self.contains_edge(NodeIndex::new(a), NodeIndex::new(b))
            }
            fn v_find_edge_undirected(&self, a: usize, b: usize) -> Option<(usize, Direction)> {
                self.find_edge_undirected(NodeIndex::new(a), NodeIndex::new(b)).map(|(e, d)| (e.index(), d))
            }
            fn v_externals(&self, d: Direction) -> Vec<usize> {
                self.externals(d).take(self.v_cap()).map(|x| x.index()).collect()
            }
            fn v_rev_iters(&self) -> (Vec<usize>, Vec<usize>, Vec<(usize, W)>, Vec<(usize, usize, usize, W)>, Vec<usize>) {
                let mut mixed = Vec::new();
                let mut it = self.node_indices();
                if let Some(x) = it.next() {
                    mixed.push(x.index());
                }
                while let Some(x) = it.next_back() {
                    mixed.push(x.index());
                    if mixed.len() > self.v_cap() {
                        break;
                    }
                }
                (
                    self.node_indices().rev().take(self.v_cap()).map(|x| x.index()).collect(),
                    self.edge_indices().rev().take(self.v_cap()).map(|x| x.index()).collect(),
                    IntoNodeReferences::node_references(self).rev().take(self.v_cap()).map(|(i, w)| (i.index(), *w)).collect(),
                    IntoEdgeReferences::edge_references(self).rev().take(self.v_cap()).map(|e| (e.id().index(), e.source().index(), e.target().index(), *e.weight())).collect(),
                    mixed,
                )
            }
            fn v_size_hints(&self) -> Vec<(usize, Option<usize>)> {
                vec![
                    self.node_indices().size_hint(),
                    self.edge_indices().size_hint(),
                    IntoNodeReferences::node_references(self).size_hint(),
                    IntoEdgeReferences::edge_references(self).size_hint(),
                ]
            }
            fn v_walk(&self, a: usize, d: Option<Direction>) -> (Vec<(usize, usize)>, Vec<usize>, Vec<usize>) {
                let start = || match d {
                    Some(d) => self.neighbors_directed(NodeIndex::new(a), d).detach(),
                    None => self.neighbors_undirected(NodeIndex::new(a)).detach(),
                };
                let cap = self.edge_count() * 2 + 4;
                let mut pairs = Vec::new();
                let mut w = start();
                while let Some((e, n)) = w.next(self) {
                    pairs.push((e.index(), n.index()));
                    if pairs.len() > cap {
                        break;
                    }
                }
                let mut nodes = Vec::new();
                let mut w = start();
                while let Some(n) = w.next_node(self) {
                    nodes.push(n.index());
                    if nodes.len() > cap {
                        break;
                    }
                }
                let mut edges = Vec::new();
                let mut w = start();
                while let Some(e) = w.next_edge(self) {
                    edges.push(e.index());
                    if edges.len() > cap {
                        break;
                    }
                }
                (pairs, nodes, edges)
            }
        }
    };
}
impl_glike!(Graph);
impl_glike!(StableGraph);

fn srt<T: Ord + Clone>(v: &[T]) -> Vec<T> {
    let mut v = v.to_vec();
    v.sort();
    v
}

macro_rules! chk {
    ($cond:expr, $p:expr, $sig:expr, $($arg:tt)*) => {
        if !($cond) {
            return Err(Failure { sig: format!("{}/{}", $p, $sig), msg: format!($($arg)*) });
        }
    };
}
macro_rules! chk_eq {
    ($a:expr, $b:expr, $p:expr, $sig:expr, $($arg:tt)*) => {{
        let (a, b) = (&$a, &$b);
        if a != b {
            return Err(Failure { sig: format!("{}/{}", $p, $sig), msg: format!("{}: got {:?}, expected {:?}", format!($($arg)*), a, b) });
        }
    }};
}

/// Compare every observable of `g` with the model.  `p` = property id for signatures,
/// `ordered` = assert the documented most-recently-added-first order of directed neighbour lists,
/// `light` = skip the quadratic all-pairs part (large capacity histories).
pub fn observe<G: GLike>(g: &G, m: &Model, p: &str, ordered: bool, light: bool) -> Result<(), Failure> {
    let nl = m.nodes.len();
    let el = m.edges.len();
    chk_eq!(g.v_node_count(), m.node_count(), p, "node_count", "node_count()");
    chk_eq!(g.v_edge_count(), m.edge_count(), p, "edge_count", "edge_count()");
    chk_eq!(g.v_is_directed(), m.directed, p, "is_directed", "is_directed()");
    let mx = g.v_max_index();
    for a in (0..nl + 2).filter(|&a| a <= mx) {
        chk_eq!(g.v_node_weight(a), m.nodes.get(a).cloned().flatten(), p, "node_weight", "node_weight({a})");
    }
    for e in (0..el + 2).filter(|&e| e <= mx) {
        let exp = m.edges.get(e).cloned().flatten();
        chk_eq!(g.v_edge_weight(e), exp.as_ref().map(|x| x.w), p, "edge_weight", "edge_weight({e})");
        chk_eq!(g.v_edge_endpoints(e), exp.as_ref().map(|x| (x.src, x.dst)), p, "edge_endpoints", "edge_endpoints({e})");
    }
    let ln = m.live_nodes();
    let le = m.live_edges();
    chk_eq!(g.v_node_indices(), ln, p, "node_indices", "node_indices()");
    chk_eq!(g.v_edge_indices(), le, p, "edge_indices", "edge_indices()");
    chk_eq!(g.v_node_weights(), ln.iter().map(|&i| m.nodes[i].unwrap()).collect::<Vec<_>>(), p, "node_weights", "node_weights()");
    chk_eq!(g.v_edge_weights(), le.iter().map(|&i| m.edges[i].as_ref().unwrap().w).collect::<Vec<_>>(), p, "edge_weights", "edge_weights()");
    chk_eq!(g.v_node_references(), ln.iter().map(|&i| (i, m.nodes[i].unwrap())).collect::<Vec<_>>(), p, "node_references", "node_references()");
    chk_eq!(
        g.v_edge_references(),
        le.iter().map(|&i| { let e = m.edges[i].as_ref().unwrap(); (i, e.src, e.dst, e.w) }).collect::<Vec<_>>(),
        p,
        "edge_references",
        "edge_references()"
    );
    // the same iterators from the back, and their size hints
    {
        let (rn, re, rnr, rer, mixed) = g.v_rev_iters();
        let rev = |v: &Vec<usize>| v.iter().rev().copied().collect::<Vec<_>>();
        chk_eq!(rn, rev(&ln), p, "node_indices-rev", "node_indices().rev()");
        chk_eq!(re, rev(&le), p, "edge_indices-rev", "edge_indices().rev()");
        chk_eq!(rnr.iter().map(|x| x.0).collect::<Vec<_>>(), rev(&ln), p, "node_references-rev", "node_references().rev()");
        chk_eq!(rer.iter().map(|x| x.0).collect::<Vec<_>>(), rev(&le), p, "edge_references-rev", "edge_references().rev()");
        let mut exp_mixed: Vec<usize> = ln.iter().take(1).copied().collect();
        exp_mixed.extend(ln.iter().skip(1).rev().copied());
        chk_eq!(mixed, exp_mixed, p, "node_indices-double-ended", "node_indices(): next() then next_back() until exhausted");
        let lens = [ln.len(), le.len(), ln.len(), le.len()];
        for (k, (lo, hi)) in g.v_size_hints().into_iter().enumerate() {
            chk!(lo <= lens[k] && hi.map_or(true, |h| h >= lens[k]), p, "size_hint", "size_hint ({lo}, {hi:?}) of whole-graph iterator #{k} does not bracket its length {}", lens[k]);
        }
    }
    // externals
    for d in [Outgoing, Incoming] {
        let exp: Vec<usize> = ln
            .iter()
            .copied()
            .filter(|&a| if m.directed { m.incident(a, d).is_empty() } else { m.incident(a, Outgoing).is_empty() })
            .collect();
        chk_eq!(g.v_externals(d), exp, p, "externals", "externals({d:?})");
    }
    // per node lists (every slot, plus one index beyond the end)
    let node_range: Vec<usize> = if light && nl > 24 { (0..6).chain(nl - 6..nl + 1).collect() } else { (0..nl + 1).collect() };
    let node_range: Vec<usize> = node_range.into_iter().filter(|&a| a <= mx).collect();
    for &a in &node_range {
        for d in [Outgoing, Incoming] {
            let inc = m.incident(a, d);
            let other = |t: &(usize, usize, usize)| if d == Outgoing { t.2 } else { t.1 };
            let exp_n: Vec<usize> = inc.iter().map(other).collect();
            let got_n = g.v_neighbors_directed(a, d);
            let k = if ordered { m.ordered_prefix(a, d) } else { 0 };
            chk!(
                got_n.len() == exp_n.len() && got_n[..k.min(got_n.len())] == exp_n[..k.min(exp_n.len())] && srt(&got_n) == srt(&exp_n),
                p,
                if k > 0 && srt(&got_n) == srt(&exp_n) { "neighbors-order" } else { "neighbors_directed" },
                "neighbors_directed({a}, {d:?}): got {got_n:?}, expected {exp_n:?} (first {k} in this order: most recently added first)"
            );
            if d == Outgoing {
                chk_eq!(g.v_neighbors(a), got_n, p, "neighbors", "neighbors({a}) vs neighbors_directed({a}, Outgoing)");
            }
            let exp_e: Vec<(usize, usize, usize, W)> = inc.iter().map(|t| (t.0, t.1, t.2, m.edges[t.0].as_ref().unwrap().w)).collect();
            let got_e = g.v_edges_directed(a, d);
            chk_eq!(srt(&got_e), srt(&exp_e), p, "edges_directed", "edges_directed({a}, {d:?}) as (id, source, target, weight)");
            if d == Outgoing {
                chk_eq!(srt(&g.v_edges(a)), srt(&exp_e), p, "edges", "edges({a})");
            }
            // detached walker
            let (pairs, nodes, edges) = g.v_walk(a, Some(d));
            chk_eq!(pairs.iter().map(|x| x.1).collect::<Vec<_>>(), got_n, p, "walker", "detached walker of neighbors_directed({a}, {d:?}): nodes from next()");
            chk_eq!(nodes, got_n, p, "walker", "detached walker next_node() for ({a}, {d:?})");
            chk_eq!(edges, pairs.iter().map(|x| x.0).collect::<Vec<_>>(), p, "walker", "detached walker next_edge() vs next() for ({a}, {d:?})");
            chk_eq!(srt(&edges), srt(&inc.iter().map(|t| t.0).collect::<Vec<_>>()), p, "walker", "edge ids from the detached walker of ({a}, {d:?})");
            for &(e, nb) in &pairs {
                let ok = if m.directed {
                    let ed = m.edges[e].as_ref().unwrap();
                    if d == Outgoing { ed.src == a && ed.dst == nb } else { ed.dst == a && ed.src == nb }
                } else {
                    m.joins(e, a, nb)
                };
                chk!(ok, p, "walker", "detached walker of ({a}, {d:?}) paired edge {e} with node {nb}");
            }
        }
        // neighbors_undirected: both lists, a self-loop once
        let mut exp_u: Vec<usize> = Vec::new();
        if m.node_live(a) {
            for ed in m.edges.iter().flatten() {
                if ed.src == a {
                    exp_u.push(ed.dst);
                } else if ed.dst == a {
                    exp_u.push(ed.src);
                }
            }
        }
        chk_eq!(srt(&g.v_neighbors_undirected(a)), srt(&exp_u), p, "neighbors_undirected", "neighbors_undirected({a})");
        let (pairs, _, _) = g.v_walk(a, None);
        chk_eq!(srt(&pairs.iter().map(|x| x.1).collect::<Vec<_>>()), srt(&exp_u), p, "walker", "detached walker of neighbors_undirected({a})");
    }
    // all ordered pairs
    for &a in &node_range {
        for &b in &node_range {
            let exists = m.find(a, b).is_some() && m.node_live(a) && m.node_live(b);
            let f = g.v_find_edge(a, b);
            chk_eq!(f.is_some(), exists, p, "find_edge", "find_edge({a},{b}).is_some()");
            if let Some(e) = f {
                chk!(m.joins(e, a, b), p, "find_edge", "find_edge({a},{b}) = {e}, which does not join them");
            }
            chk_eq!(g.v_contains_edge(a, b), exists, p, "contains_edge", "contains_edge({a},{b})");
            let any = (0..el).any(|e| m.edges[e].as_ref().map_or(false, |ed| (ed.src == a && ed.dst == b) || (ed.src == b && ed.dst == a)));
            let fu = g.v_find_edge_undirected(a, b);
            chk_eq!(fu.is_some(), any, p, "find_edge_undirected", "find_edge_undirected({a},{b}).is_some()");
            if let Some((e, d)) = fu {
                let ed = m.edges.get(e).cloned().flatten();
                let ok = ed.map_or(false, |ed| if d == Outgoing { ed.src == a && ed.dst == b } else { ed.src == b && ed.dst == a });
                chk!(ok, p, "find_edge_undirected", "find_edge_undirected({a},{b}) = ({e}, {d:?}): edge/direction flag do not match");
            }
            let exp_c: Vec<(usize, usize, usize, W)> =
                (0..el).filter(|&e| m.joins(e, a, b)).map(|e| (e, a, b, m.edges[e].as_ref().unwrap().w)).collect();
            chk_eq!(srt(&g.v_edges_connecting(a, b)), srt(&exp_c), p, "edges_connecting", "edges_connecting({a},{b})");
        }
    }
    Ok(())
}

/// Adopt the real numbering where the documentation leaves it open (compact `Graph` only):
/// nodes (if `nodes_too`) and edges are matched through their unique tags.  A tag that is missing
/// or extra on either side is a violation.  Returns (node numbering unchanged, edge numbering unchanged).
pub fn resync<G: GLike>(g: &G, m: &mut Model, p: &str, nodes_too: bool, at: &str) -> Result<(bool, bool), Failure> {
    let mut node_id = true;
    if nodes_too {
        let real: Vec<Option<W>> = (0..g.v_node_count().max(m.nodes.len())).map(|i| g.v_node_weight(i)).collect();
        let real_tags: Vec<u32> = real.iter().flatten().map(|w| w[0]).collect();
        let model_tags: Vec<u32> = m.nodes.iter().flatten().map(|w| w[0]).collect();
        chk_eq!(srt(&real_tags), srt(&model_tags), p, "node-set-differs", "{at}: node tags present");
        chk_eq!(real_tags.len(), real.iter().take(real_tags.len()).flatten().count(), p, "node-indices-not-compact", "{at}: nodes do not occupy 0..n");
        let mut newpos = vec![usize::MAX; m.nodes.len()];
        for (j, w) in m.nodes.iter().enumerate() {
            let t = w.unwrap()[0];
            newpos[j] = real_tags.iter().position(|&x| x == t).unwrap();
            if newpos[j] != j {
                node_id = false;
            }
        }
        let mut nodes = vec![None; m.nodes.len()];
        for (j, w) in m.nodes.iter().enumerate() {
            nodes[newpos[j]] = *w;
        }
        m.nodes = nodes;
        for ed in m.edges.iter_mut().flatten() {
            ed.src = newpos[ed.src];
            ed.dst = newpos[ed.dst];
        }
    }
    let real_e: Vec<Option<W>> = (0..g.v_edge_count().max(m.edges.len())).map(|i| g.v_edge_weight(i)).collect();
    let real_tags: Vec<u32> = real_e.iter().flatten().map(|w| w[0]).collect();
    let model_tags: Vec<u32> = m.edges.iter().flatten().map(|e| e.w[0]).collect();
    chk_eq!(srt(&real_tags), srt(&model_tags), p, "edge-set-differs", "{at}: edge tags present");
    chk_eq!(real_tags.len(), real_e.iter().take(real_tags.len()).flatten().count(), p, "edge-indices-not-compact", "{at}: edges do not occupy 0..m");
    let mut edge_id = true;
    let mut edges: Vec<Option<MEdge>> = vec![None; m.edges.len()];
    for (j, ed) in m.edges.iter().enumerate() {
        let ed = ed.as_ref().unwrap();
        let pos = real_tags.iter().position(|&x| x == ed.w[0]).unwrap();
        if pos != j {
            edge_id = false;
        }
        edges[pos] = Some(ed.clone());
    }
    m.edges = edges;
    Ok((node_id, edge_id))
}
