//! C10 — dijkstra, astar, k_shortest_path with non-negative costs.

use crate::agraph::*;
use crate::engine::*;
use crate::util::pick;
use petgraph::algo::{astar, dijkstra, k_shortest_path, Measure};
use petgraph::graph::{Graph, NodeIndex};
use petgraph::visit::{EdgeRef, IntoEdges, NodeCount, NodeIndexable, Visitable};
use petgraph::{Directed, Undirected};
use proptest::prelude::*;
use serde::{Deserialize, Serialize};
use std::hash::Hash;

#[derive(Debug, Clone, Serialize, Deserialize)]
pub struct Case {
    pub g: RawGraph,
    pub enc: u8,
    pub salt: u8,
    pub src: u16,
    pub goal: u16,
    /// bit set of goal nodes for astar (by label % 16); 0 => single goal
    pub goalset: u16,
    pub k: u8,
    /// 0 zero, 1 exact, 2 random admissible (possibly inconsistent)
    pub hkind: u8,
    pub hvals: Vec<u8>,
    /// cost type: 0 u32, 1 i32, 2 f64 (quarters), 3 f32 (quarters)
    pub cost: u8,
}

pub fn strategy(tier: Tier) -> BoxedStrategy<Case> {
    let (maxn, maxm) = if tier == Tier::Quick { (8, 22) } else { (11, 36) };
    (
        raw_graph(1, maxn, maxm, None),
        any::<u8>(),
        any::<u8>(),
        any::<u16>(),
        any::<u16>(),
        prop_oneof![2 => Just(0u16), 1 => any::<u16>()],
        1u8..=5,
        0u8..3,
        proptest::collection::vec(any::<u8>(), 12),
        0u8..4,
    )
        .prop_map(|(g, enc, salt, src, goal, goalset, k, hkind, hvals, cost)| Case {
            g,
            enc,
            salt,
            src,
            goal,
            goalset,
            k,
            hkind,
            hvals,
            cost,
        })
        .boxed()
}

const OPTS: GOpts = GOpts::new(true, true, 0, 9);

trait Nid: Copy + Eq + Hash + std::fmt::Debug {}
impl<T: Copy + Eq + Hash + std::fmt::Debug> Nid for T {}

/// cost type abstraction: exact conversion from the integer weights
pub trait Cost: Measure + Copy + PartialEq + std::fmt::Debug {
    fn of(w: i64) -> Self;
}
impl Cost for u32 {
    fn of(w: i64) -> Self {
        w as u32
    }
}
impl Cost for i32 {
    fn of(w: i64) -> Self {
        w as i32
    }
}
impl Cost for f64 {
    fn of(w: i64) -> Self {
        w as f64 * 0.25
    }
}
impl Cost for f32 {
    fn of(w: i64) -> Self {
        w as f32 * 0.25
    }
}

/// k smallest walk costs from s to every node (multisets, ascending), walks counted with
/// repeated vertices, the empty walk included at s.
fn k_walk_costs(a: &AGraph, s: usize, k: usize) -> Vec<Vec<i64>> {
    let n = a.n;
    let mut total: Vec<Vec<i64>> = vec![Vec::new(); n];
    let mut cur: Vec<Vec<i64>> = vec![Vec::new(); n];
    cur[s].push(0);
    total[s].push(0);
    for _len in 0..(k * n + 1) {
        let mut next: Vec<Vec<i64>> = vec![Vec::new(); n];
        for &(u, v, w) in &a.edges {
            for &c in &cur[u] {
                next[v].push(c + w as i64);
            }
            if !a.directed && u != v {
                for &c in &cur[v] {
                    next[u].push(c + w as i64);
                }
            }
        }
        let mut any = false;
        for v in 0..n {
            next[v].sort();
            next[v].truncate(k);
            if !next[v].is_empty() {
                any = true;
            }
            total[v].extend(next[v].iter().copied());
            total[v].sort();
            total[v].truncate(k);
        }
        cur = next;
        if !any {
            break;
        }
    }
    total
}

fn check<G, K>(g: G, v: &View<G::NodeId>, c: &Case, obs: &mut Obs) -> Result<(), Failure>
where
    G: IntoEdges + Visitable + NodeCount + NodeIndexable + Copy,
    G::NodeId: Nid,
    G::EdgeRef: EdgeRef<Weight = i32>,
    K: Cost,
{
    let a = v.a;
    let n = a.n;
    let s = pick(c.src, n);
    let dist = a.dist_from(s).expect("non-negative weights");
    let ec = |e: G::EdgeRef| K::of(*e.weight() as i64);

    // ---- dijkstra, no goal ----
    let d = dijkstra(g, v.id(s), None, ec);
    for l in 0..n {
        match d.get(&v.id(l)) {
            Some(&x) => {
                ensure!(dist[l] < INF, "C10/dijkstra-unreachable-key", "dijkstra from {s}: entry for unreachable node {l}");
                ensure_eq!(x, K::of(dist[l]), "C10/dijkstra-distance", "dijkstra from {s}: cost of {l}");
            }
            None => ensure!(dist[l] >= INF, "C10/dijkstra-missing-key", "dijkstra from {s}: no entry for reachable node {l}"),
        }
    }
    ensure_eq!(d.len(), dist.iter().filter(|&&x| x < INF).count(), "C10/dijkstra-extra-keys", "dijkstra from {s}: number of entries");

    // ---- dijkstra with a goal ----
    let t = pick(c.goal, n);
    let dg = dijkstra(g, v.id(s), Some(v.id(t)), ec);
    match dg.get(&v.id(t)) {
        Some(&x) => {
            ensure!(dist[t] < INF, "C10/dijkstra-goal-unreachable-key", "dijkstra {s}->{t}: entry for unreachable goal");
            ensure_eq!(x, K::of(dist[t]), "C10/dijkstra-goal-distance", "dijkstra {s}->{t}: cost of the goal");
        }
        None => ensure!(dist[t] >= INF, "C10/dijkstra-goal-missing", "dijkstra {s}->{t}: reachable goal has no entry"),
    }
    for (&id, &x) in dg.iter() {
        let l = v.label(id, "dijkstra")?;
        ensure!(dist[l] < INF, "C10/dijkstra-unreachable-key", "dijkstra {s}->{t}: entry for unreachable node {l}");
        ensure!(!(x < K::of(dist[l])), "C10/dijkstra-goal-below-distance", "dijkstra {s}->{t}: entry {x:?} for {l} is below its distance {}", dist[l]);
        if dist[l] < dist[t] {
            ensure_eq!(x, K::of(dist[l]), "C10/dijkstra-goal-closer-not-exact", "dijkstra {s}->{t}: node {l} is closer than the goal, its entry");
        }
    }
    for l in 0..n {
        if dist[l] < dist[t] && dist[l] < INF {
            ensure!(dg.contains_key(&v.id(l)), "C10/dijkstra-goal-closer-missing", "dijkstra {s}->{t}: node {l} (closer than the goal) has no entry");
        }
    }

    // ---- astar ----
    let goals: Vec<bool> = if c.goalset == 0 { (0..n).map(|l| l == t).collect() } else { (0..n).map(|l| (c.goalset >> (l % 16)) & 1 == 1).collect() };
    // distance to the nearest goal: shortest distance in the reversed graph from the goal set
    let rev = AGraph { directed: a.directed, n, edges: a.edges.iter().map(|&(x, y, w)| (y, x, w)).collect() };
    let mut to_goal = vec![INF; n];
    for gl in 0..n {
        if goals[gl] {
            let dgl = rev.dist_from(gl).unwrap();
            for l in 0..n {
                to_goal[l] = to_goal[l].min(dgl[l]);
            }
        }
    }
    let h: Vec<i64> = (0..n)
        .map(|l| match c.hkind {
            0 => 0,
            1 => {
                if to_goal[l] < INF {
                    to_goal[l]
                } else {
                    1000
                }
            }
            _ => {
                if to_goal[l] < INF {
                    (c.hvals[l % c.hvals.len()] as i64 * (to_goal[l] + 1)) >> 8
                } else {
                    c.hvals[l % c.hvals.len()] as i64
                }
            }
        })
        .collect();
    let res = astar(g, v.id(s), |x| v.labels.get(&x).map_or(false, |&l| goals[l]), ec, |x| K::of(v.labels.get(&x).map_or(0, |&l| h[l])));
    match res {
        None => ensure!(to_goal[s] >= INF, "C10/astar-none-but-reachable", "astar from {s}: None although a goal is reachable at distance {}", to_goal[s]),
        Some((cost, path)) => {
            ensure!(to_goal[s] < INF, "C10/astar-some-but-unreachable", "astar from {s}: returned a path although no goal is reachable");
            let p: Vec<usize> = path.iter().map(|&x| v.label(x, "astar")).collect::<Result<_, _>>()?;
            ensure!(!p.is_empty() && p[0] == s, "C10/astar-path-start", "astar from {s}: path {p:?} does not start at the source");
            ensure!(goals[*p.last().unwrap()], "C10/astar-path-end", "astar from {s}: path {p:?} does not end at a goal");
            let mut sum = 0i64;
            for w in p.windows(2) {
                match a.min_edge(w[0], w[1]) {
                    Some(x) => sum += x as i64,
                    None => return fail("C10/astar-path-edge", format!("astar from {s}: path {p:?} uses the non-edge {}->{}", w[0], w[1])),
                }
            }
            ensure_eq!(cost, K::of(to_goal[s]), "C10/astar-cost-not-optimal", "astar from {s} (heuristic kind {}): reported cost vs distance to nearest goal", c.hkind);
            ensure_eq!(K::of(sum), cost, "C10/astar-cost-vs-path", "astar from {s}: sum of edge costs along {p:?} vs reported cost");
        }
    }
    obs.label_if(c.hkind == 2, "astar: random admissible heuristic");

    // ---- k_shortest_path ----
    let k = c.k as usize;
    let kc = k_walk_costs(a, s, k);
    let ks = k_shortest_path(g, v.id(s), None, k, ec);
    for l in 0..n {
        let exp = kc[l].get(k - 1).copied();
        let got = ks.get(&v.id(l)).copied();
        match (got, exp) {
            (Some(x), Some(e)) => ensure_eq!(x, K::of(e), "C10/k_shortest-cost", "k_shortest_path(k={k}) from {s}: node {l}"),
            (None, None) => {}
            (Some(x), None) => return fail("C10/k_shortest-extra-key", format!("k_shortest_path(k={k}) from {s}: entry {x:?} for node {l} which has fewer than {k} walks")),
            (None, Some(e)) => return fail("C10/k_shortest-missing-key", format!("k_shortest_path(k={k}) from {s}: no entry for node {l}, expected {e}")),
        }
    }
    ensure_eq!(ks.len(), (0..n).filter(|&l| kc[l].len() >= k).count(), "C10/k_shortest-extra-key", "k_shortest_path: number of entries");
    if k == 1 {
        for l in 0..n {
            ensure_eq!(ks.get(&v.id(l)), d.get(&v.id(l)), "C10/k_shortest-k1-vs-dijkstra", "k=1 vs dijkstra for node {l}");
        }
    }
    // with a goal: the goal's entry is exact
    let kg = k_shortest_path(g, v.id(s), Some(v.id(t)), k, ec);
    ensure_eq!(kg.get(&v.id(t)).copied(), kc[t].get(k - 1).map(|&e| K::of(e)), "C10/k_shortest-goal", "k_shortest_path(k={k}) {s}->{t}: goal entry");

    // non-trivial: an unreachable node and a node whose best path has >= 2 hops and beats a direct edge
    let unreachable = dist.iter().any(|&x| x >= INF);
    let hops = a.hops_from(s);
    let detour = (0..n).any(|l| hops[l] == 1 && a.min_edge(s, l).map_or(false, |w| (w as i64) > dist[l]));
    obs.nontrivial = unreachable && detour;
    obs.label_if(unreachable, "has unreachable node");
    obs.label_if(detour, "detour beats direct edge");
    Ok(())
}

fn check_all_costs<G>(g: G, v: &View<G::NodeId>, c: &Case, obs: &mut Obs) -> Result<(), Failure>
where
    G: IntoEdges + Visitable + NodeCount + NodeIndexable + Copy,
    G::NodeId: Nid,
    G::EdgeRef: EdgeRef<Weight = i32>,
{
    match c.cost % 4 {
        0 => check::<G, u32>(g, v, c, obs),
        1 => check::<G, i32>(g, v, c, obs),
        2 => check::<G, f64>(g, v, c, obs),
        _ => check::<G, f32>(g, v, c, obs),
    }
}

pub fn simplified_min(a: &AGraph) -> AGraph {
    // keep the first edge of every parallel class (GraphMap/MatrixGraph/Csr keep one weight)
    let mut out = AGraph { directed: a.directed, n: a.n, edges: Vec::new() };
    for &(u, w, x) in &a.edges {
        if !out.edges.iter().any(|&(p, q, _)| (p == u && q == w) || (!a.directed && p == w && q == u)) {
            out.edges.push((u, w, x));
        }
    }
    out
}

pub fn run(c: &Case) -> Outcome {
    let a0 = c.g.build(&OPTS);
    let n = a0.n;
    let mut obs = Obs::default();
    let enc = c.enc % 6;
    let simple = simplified_min(&a0);
    let a = if enc >= 2 && enc != 5 { &simple } else { &a0 };
    match (enc, a.directed) {
        (0, true) => {
            let g: Graph<usize, i32, Directed, u32> = to_graph(a, |w| w);
            check_all_costs(&g, &View::full(a, (0..n).map(NodeIndex::new)), c, &mut obs)?;
            obs.label("Graph directed");
        }
        (0, false) => {
            let g: Graph<usize, i32, Undirected, u16> = to_graph(a, |w| w);
            check_all_costs(&g, &View::full(a, (0..n).map(NodeIndex::new)), c, &mut obs)?;
            obs.label("Graph undirected");
        }
        (1, true) | (5, true) => {
            let (g, map) = to_stable_holes::<i32, Directed, u32>(a, c.salt as u64 + 1, |w| w);
            check_all_costs(&g, &View::full(a, map), c, &mut obs)?;
            obs.label("StableGraph directed, holes");
        }
        (1, false) | (5, false) => {
            let (g, map) = to_stable_holes::<i32, Undirected, u8>(a, c.salt as u64 + 1, |w| w);
            check_all_costs(&g, &View::full(a, map), c, &mut obs)?;
            obs.label("StableGraph undirected, holes");
        }
        (2, true) => {
            let g = to_graphmap::<i32, Directed>(a, |w| w);
            check_all_costs(&g, &View::full(a, (0..n).map(gm_key)), c, &mut obs)?;
            obs.label("GraphMap directed");
        }
        (2, false) => {
            let g = to_graphmap::<i32, Undirected>(a, |w| w);
            check_all_costs(&g, &View::full(a, (0..n).map(gm_key)), c, &mut obs)?;
            obs.label("GraphMap undirected");
        }
        (3, true) => {
            let g = to_csr::<i32, Directed>(a, |w| w);
            check_all_costs(&g, &View::full(a, (0..n).map(|i| i as u32)), c, &mut obs)?;
            obs.label("Csr directed");
        }
        (3, false) => {
            let g = to_csr::<i32, Undirected>(a, |w| w);
            check_all_costs(&g, &View::full(a, (0..n).map(|i| i as u32)), c, &mut obs)?;
            obs.label("Csr undirected");
        }
        (_, true) => {
            let (g, map) = to_matrix_holes::<i32, Directed>(a, c.salt as u64 + 1, |w| w);
            check_all_costs(&g, &View::full(a, map), c, &mut obs)?;
            obs.label("MatrixGraph directed, holes");
        }
        (_, false) => {
            let (g, map) = to_matrix_holes::<i32, Undirected>(a, c.salt as u64 + 1, |w| w);
            check_all_costs(&g, &View::full(a, map), c, &mut obs)?;
            obs.label("MatrixGraph undirected, holes");
        }
    }
    Ok(obs)
}

/// bounded-exhaustive scope: every digraph on 1..=3 nodes and every undirected graph on 1..=3 nodes
/// (loops included) with every assignment of the costs {0, 1, 5} to its edges, x encoding x source x goal
const ENUM_P: u64 = 6 * 3 * 3;
fn enum_count(_tier: Tier) -> u64 {
    small_weighted_count(3, 3) * ENUM_P
}
fn enum_make(_tier: Tier, i: u64) -> Case {
    let (dir, n, code) = small_weighted(i / ENUM_P, 3, 3).expect("index within the scope");
    let p = i % ENUM_P;
    Case {
        // weight(byte) = byte * 10 >> 8 with OPTS (0..=9): 0 -> 0, 26 -> 1, 128 -> 5
        g: raw_quaternary(dir, n, code, [0, 26, 128]),
        enc: (p % 6) as u8,
        salt: (i % 251) as u8,
        src: sel_for((p / 6) as usize % 3 % n, n),
        goal: sel_for((p / 18) as usize % n, n),
        goalset: if i % 4 == 0 { (i % 7) as u16 } else { 0 },
        k: 1 + (i % 4) as u8,
        hkind: (i % 3) as u8,
        hvals: vec![(i % 5) as u8, (i % 3) as u8, (i % 2) as u8],
        cost: (i % 4) as u8,
    }
}

/// libFuzzer entry / from-bytes generator: bring a decoded case into the domain of `strategy`
pub fn fuzz_domain(c: &mut Case) -> bool {
    c.g.sanitize(1, 11, 36, None);
    if c.k == 0 || c.k > 5 {
        c.k = 1 + c.k % 5;
    }
    c.hkind %= 3;
    c.hvals.resize(12, 0);
    c.cost %= 4;
    true
}
pub fn bytes_strategy(_tier: Tier) -> BoxedStrategy<Case> {
    decoded_strategy(fuzz_domain)
}

pub fn property() -> Property {
    Property {
        id: "C10",
        rule: "random weighted multigraphs (1..=8 nodes quick, weights 0..=9 incl. zero edges/cycles, parallel edges, loops) in Graph / StableGraph+MatrixGraph with vacancies / GraphMap / Csr, cost types u32,i32,f64,f32 (floats are exact multiples of 0.25); dijkstra (no goal / goal), astar (single goal and goal sets; zero, exact and random admissible-inconsistent heuristics) and k_shortest_path (k 1..=5) compared with fixpoint distances and a dynamic programme over walks; non-trivial = some node unreachable and some direct edge beaten by a longer path; distinct by case fingerprint; bounded-exhaustive sub-check: every directed / undirected graph on 1..=3 nodes (loops included) with every assignment of the costs {0,1,5} to its edges x 6 encodings x source x goal",
        assumptions: &["k-th walk cost oracle considers walks of at most k*n+1 edges (sufficient for non-negative costs)"],
        both_profiles: false,
        subs: vec![sub_fuzz("shortest/nonneg", 4_000_000, 60_000_000, strategy, run, fuzz_domain), sub("shortest/nonneg-from-bytes", 600_000, 10_000_000, bytes_strategy, run), sub_enum("shortest/all-small-weighted-graphs", enum_count, enum_make, run)],
    }
}
