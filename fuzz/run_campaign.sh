#!/bin/sh
# run_campaign.sh <Cxx>: coverage-guided (libFuzzer) campaign for the property, thorough tier only.
# Same oracles as the proptest campaigns (see fuzz_targets/).  Exit 0 nothing found, 1 VIOLATION (line
# printed, replay file written by the target), 2 inconclusive (build failure / fuzzer error).
ID=$1
F=/verif/fuzz
SEED=${VERIF_SEED:-1}
[ "$SEED" = 0 ] && SEED=1
RUNS=${PGFUZZ_RUNS:-2000000}
case "$ID" in
C17) JOBS="deser_bytes:-" ;;
C01) JOBS="ops:0" ;;
C02) JOBS="ops:1" ;;
C04) JOBS="ops:2" ;;
C03) JOBS="ops:3" ;;
C05) JOBS="ops:4 ops:5" ;;
C14) JOBS="ops:6" ;;
C19) JOBS="ops:7" ;;
*) exit 0 ;;
esac
cd /verif/harness || exit 2
export CARGO_NET_OFFLINE=true
if ! cargo +nightly fuzz build --fuzz-dir "$F" >"$F/build.log" 2>&1; then
    tail -20 "$F/build.log"; echo "INCONCLUSIVE property=$ID: fuzz build failed"; exit 2
fi
rc=0
for job in $JOBS; do
    target=${job%%:*}; sel=${job##*:}
    work="$F/work/$ID-$target-$sel"
    rm -rf "$work"; mkdir -p "$work" "$F/artifacts/$ID"
    if [ "$target" = deser_bytes ]; then
        /verif/harness/target/release/pgcheck fuzz-seeds "$work" || exit 2
        maxlen=600; runs=$RUNS
    else
        export PGFUZZ_TARGET=$sel
        case "$sel" in
        0) subname=graph/history ;; 1) subname=stable/history ;; 2) subname=matrix/history ;; 3) subname=graphmap/history ;;
        4) subname=csr/history ;; 5) subname=list/history ;; 6) subname=acyclic/history ;; 7) subname=unionfind/history ;;
        esac
        # starting corpus: 96 histories drawn from the proptest strategy (encoded with pgcheck::fuzzde) + the empty input
        VERIF_SEED=$SEED /verif/harness/target/release/pgcheck fuzz-seeds "$work" "$ID" "$subname" 96 2>/dev/null || exit 2
        : > "$work/empty"
        maxlen=1500; runs=$((RUNS / 4))
    fi
    out="$F/work/$ID-$target-$sel.log"
    cargo +nightly fuzz run --fuzz-dir "$F" "$target" "$work" -- -runs="$runs" -seed="$SEED" -max_len=$maxlen -len_control=0 \
        -artifact_prefix="$F/artifacts/$ID/" -timeout=60 -rss_limit_mb=4096 -print_final_stats=1 >"$out" 2>&1
    frc=$?
    execs=$(grep -o "stat::number_of_executed_units: *[0-9]*" "$out" | grep -o "[0-9]*$" | tail -1)
    cov=$(grep -o "cov: [0-9]*" "$out" | tail -1 | grep -o "[0-9]*")
    echo "[fuzz $ID $target/$sel] executions=${execs:-?} coverage_counters=${cov:-?} libfuzzer_rc=$frc"
    python3 - "$ID" "$target/$sel" "${execs:-0}" "${cov:-0}" "$frc" <<'PY'
import json,sys
pid,tgt,execs,cov,frc=sys.argv[1:6]
p=f"/verif/evidence/{pid}.json"
try:
    e=json.load(open(p))
    e["coverage"].setdefault("libfuzzer_campaigns",[]).append({"target":tgt,"executions":int(execs),"coverage_counters":int(cov),"exit_code":int(frc)})
    e["coverage"]["evaluations"]+=int(execs)
    json.dump(e,open(p,"w"),indent=1)
except Exception as ex:
    print("evidence update failed:",ex)
PY
    if [ $frc -ne 0 ]; then
        if grep -q "^VIOLATION property=" "$out"; then
            grep "^VIOLATION property=" "$out" | head -1
            grep -m1 -A 2 "^VIOLATION property=" "$out" | tail -2
            rc=1
        else
            tail -5 "$out"; echo "INCONCLUSIVE property=$ID: libFuzzer exit code $frc without a violation line (timeout / oom / fuzzer error)"
            [ $rc = 0 ] && rc=2
        fi
    fi
    rm -rf "$work"
done
exit $rc
