use crate::engine::Property;

pub mod c01;
pub mod c02;
pub mod c03;
pub mod c04;
pub mod c05;
pub mod c06;
pub mod c07;
pub mod c08;
pub mod c09;
pub mod c10;
pub mod c11;
pub mod c12;
pub mod c13;
pub mod c14;
pub mod c15;
pub mod c16;
pub mod c17;
pub mod c18;
pub mod c19;
pub mod c20;

pub fn all() -> Vec<Property> {
    vec![c01::property(), c02::property(), c03::property(), c04::property(), c05::property(), c06::property(), c07::property(), c08::property(), c09::property(), c10::property(), c11::property(), c12::property(), c13::property(), c14::property(), c15::property(), c16::property(), c17::property(), c18::property(), c19::property(), c20::property()]
}
