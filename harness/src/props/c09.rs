//! C09 — SCC, connectivity, cycle detection, toposort, condensation.

use crate::agraph::*;
use crate::engine::*;
use crate::util::pick;
use petgraph::adj::List;
use petgraph::algo::{
    condensation, connected_components, has_path_connecting, is_bipartite_undirected, is_cyclic_directed,
    is_cyclic_undirected, kosaraju_scc, tarjan_scc, toposort, DfsSpace, TarjanScc,
};
use petgraph::graph::{Graph, NodeIndex};
use petgraph::visit::{
    EdgeRef, GraphRef, IntoEdgeReferences, IntoNeighbors, IntoNeighborsDirected, IntoNodeIdentifiers,
    NodeCompactIndexable, NodeIndexable, Visitable,
};
use petgraph::{Directed, EdgeType, Undirected};
use proptest::prelude::*;
use serde::{Deserialize, Serialize};
use std::hash::Hash;

#[derive(Debug, Clone, Serialize, Deserialize)]
pub struct Case {
    pub g: RawGraph,
    pub enc: u8,
    pub salt: u8,
    pub start: u16,
}

pub fn strategy(tier: Tier) -> BoxedStrategy<Case> {
    let (maxn, maxm) = if tier == Tier::Quick { (10, 26) } else { (14, 44) };
    (raw_graph(0, maxn, maxm, None), any::<u8>(), any::<u8>(), any::<u16>())
        .prop_map(|(g, enc, salt, start)| Case { g, enc, salt, start })
        .boxed()
}

const OPTS: GOpts = GOpts::new(true, true, 1, 9);

trait Nid: Copy + Eq + Hash + std::fmt::Debug {}
impl<T: Copy + Eq + Hash + std::fmt::Debug> Nid for T {}

fn check_scc_list<N: Nid>(v: &View<N>, sccs: &[Vec<N>], what: &str) -> Result<(), Failure> {
    let a = v.a;
    let (ids, k) = a.scc_ids();
    let r = a.reach();
    let mut comp_of = vec![usize::MAX; a.n];
    for (ci, comp) in sccs.iter().enumerate() {
        ensure!(!comp.is_empty(), "C09/scc-empty-component", "{what}: component {ci} is empty");
        for &x in comp {
            let l = v.label(x, what)?;
            ensure!(comp_of[l] == usize::MAX, "C09/scc-node-twice", "{what}: node {l} listed twice");
            comp_of[l] = ci;
        }
    }
    for l in 0..a.n {
        ensure!(comp_of[l] != usize::MAX, "C09/scc-node-missing", "{what}: node {l} in no component");
    }
    ensure_eq!(sccs.len(), k, "C09/scc-count", "{what}: number of components");
    for x in 0..a.n {
        for y in 0..a.n {
            ensure_eq!(
                comp_of[x] == comp_of[y],
                ids[x] == ids[y],
                "C09/scc-partition",
                "{what}: nodes {x},{y} in the same component"
            );
            if comp_of[x] < comp_of[y] {
                ensure!(
                    !r[x][y],
                    "C09/scc-order",
                    "{what}: component {} (node {x}) is listed before component {} (node {y}) although it reaches it",
                    comp_of[x],
                    comp_of[y]
                );
            }
        }
    }
    Ok(())
}

fn scc_kosaraju<G>(g: G, v: &View<G::NodeId>) -> Result<(), Failure>
where
    G: IntoNeighborsDirected + Visitable + IntoNodeIdentifiers + Copy,
    G::NodeId: Nid,
{
    check_scc_list(v, &kosaraju_scc(g), "kosaraju_scc")
}

fn scc_tarjan<G>(g: G, v: &View<G::NodeId>) -> Result<(), Failure>
where
    G: IntoNodeIdentifiers + IntoNeighbors + NodeIndexable + Copy,
    G::NodeId: Nid,
{
    check_scc_list(v, &tarjan_scc(g), "tarjan_scc")?;
    let mut t = TarjanScc::new();
    for round in 0..2 {
        let mut sccs: Vec<Vec<G::NodeId>> = Vec::new();
        t.run(g, |c| sccs.push(c.to_vec()));
        check_scc_list(v, &sccs, if round == 0 { "TarjanScc::run" } else { "TarjanScc::run (reused)" })?;
        let (ids, _) = v.a.scc_ids();
        let idx: Vec<usize> = (0..v.a.n).map(|l| t.node_component_index(g, v.id(l))).collect();
        for x in 0..v.a.n {
            for y in 0..v.a.n {
                ensure_eq!(
                    idx[x] == idx[y],
                    ids[x] == ids[y],
                    "C09/node_component_index",
                    "node_component_index equal for {x},{y} (round {round})"
                );
            }
        }
        // the index identifies the component the node was listed in
        for (ci, comp) in sccs.iter().enumerate() {
            for &x in comp {
                let first = t.node_component_index(g, comp[0]);
                ensure_eq!(t.node_component_index(g, x), first, "C09/node_component_index", "component {ci}: index of member");
            }
        }
    }
    Ok(())
}

fn topo_paths<G>(g: G, v: &View<G::NodeId>, obs: &mut Obs) -> Result<(), Failure>
where
    G: IntoNeighborsDirected + IntoNodeIdentifiers + Visitable + Copy,
    G::NodeId: Nid,
    G::Map: Default,
{
    let a = v.a;
    let n = a.n;
    let r = a.reach();
    let rp = a.reach_plus();
    // the reused workspace is either sized for the graph or default-constructed (empty maps that
    // every user has to grow to node_bound itself)
    let mut space = if (n + a.m()) % 2 == 0 { DfsSpace::new(g) } else { DfsSpace::default() };
    obs.label(if (n + a.m()) % 2 == 0 { "DfsSpace::new" } else { "DfsSpace::default" });
    // has_path_connecting, fresh and reused workspace
    for x in 0..n {
        for y in 0..n {
            let fresh = has_path_connecting(g, v.id(x), v.id(y), None);
            ensure_eq!(fresh, r[x][y], "C09/has_path_connecting", "has_path_connecting({x},{y})");
            let reused = has_path_connecting(g, v.id(x), v.id(y), Some(&mut space));
            ensure_eq!(reused, r[x][y], "C09/has_path_connecting-reused-space", "has_path_connecting({x},{y}) with reused DfsSpace");
        }
    }
    if !a.directed {
        return Ok(());
    }
    let cyclic = a.has_directed_cycle();
    ensure_eq!(is_cyclic_directed(g), cyclic, "C09/is_cyclic_directed", "is_cyclic_directed");
    for round in 0..3 {
        let res = match round {
            0 => toposort(g, None),
            _ => toposort(g, Some(&mut space)),
        };
        let what = if round == 0 { "toposort" } else { "toposort (reused DfsSpace)" };
        match res {
            Ok(order) => {
                ensure!(!cyclic, "C09/toposort-ok-on-cyclic", "{what} returned Ok for a graph with a cycle");
                let mut pos = vec![usize::MAX; n];
                for (i, &x) in order.iter().enumerate() {
                    let l = v.label(x, what)?;
                    ensure!(pos[l] == usize::MAX, "C09/toposort-node-twice", "{what}: node {l} twice");
                    pos[l] = i;
                }
                ensure_eq!(order.len(), n, "C09/toposort-length", "{what}: length");
                for &(x, y, _) in &a.edges {
                    ensure!(pos[x] < pos[y], "C09/toposort-edge-backward", "{what}: edge {x}->{y} points backward");
                }
            }
            Err(c) => {
                ensure!(cyclic, "C09/toposort-err-on-acyclic", "{what} returned a Cycle for an acyclic graph");
                let l = v.label(c.node_id(), what)?;
                ensure!(rp[l][l], "C09/toposort-cycle-witness", "{what}: Cycle names node {l}, which is not on a cycle");
            }
        }
        // interleave another user of the same workspace
        if n > 0 {
            let _ = has_path_connecting(g, v.id(0), v.id(n - 1), Some(&mut space));
        }
    }
    obs.label_if(cyclic, "directed: cyclic");
    Ok(())
}

fn cc<G>(g: G, v: &View<G::NodeId>) -> Result<(), Failure>
where
    G: NodeCompactIndexable + IntoEdgeReferences + Copy,
    G::NodeId: Nid,
{
    let (_, k) = v.a.wcc_ids();
    ensure_eq!(connected_components(g), k, "C09/connected_components", "connected_components");
    Ok(())
}

fn cyc_und<G>(g: G, v: &View<G::NodeId>) -> Result<(), Failure>
where
    G: NodeIndexable + IntoEdgeReferences + Copy,
    G::NodeId: Nid,
{
    let (_, k) = v.a.wcc_ids();
    // a multigraph is a forest iff m = n - c; parallel edges and self-loops are cycles
    let expect = v.a.m() != v.a.n - k;
    ensure_eq!(is_cyclic_undirected(g), expect, "C09/is_cyclic_undirected", "is_cyclic_undirected");
    Ok(())
}

fn bip<G>(g: G, v: &View<G::NodeId>, start: u16) -> Result<(), Failure>
where
    G: GraphRef + Visitable + IntoNeighbors,
    G::NodeId: Nid,
{
    let a = v.a;
    if a.directed || a.n == 0 {
        return Ok(());
    }
    let s = pick(start, a.n);
    // 2-colour the component of s by propagation
    let adj = a.out_adj();
    let mut col = vec![2u8; a.n];
    col[s] = 0;
    let mut ok = true;
    let mut changed = true;
    while changed {
        changed = false;
        for u in 0..a.n {
            if col[u] == 2 {
                continue;
            }
            for &(w, _) in &adj[u] {
                if col[w] == 2 {
                    col[w] = 1 - col[u];
                    changed = true;
                } else if col[w] == col[u] {
                    ok = false;
                }
            }
        }
    }
    ensure_eq!(is_bipartite_undirected(g, v.id(s)), ok, "C09/is_bipartite_undirected", "is_bipartite_undirected from {s}");
    Ok(())
}

fn cond<Ty: EdgeType>(a: &AGraph, make_acyclic: bool) -> Result<(), Failure> {
    let g: Graph<usize, (usize, i32), Ty, u32> = {
        let mut g = Graph::with_capacity(0, 0);
        for i in 0..a.n {
            g.add_node(i);
        }
        for (i, &(u, w, x)) in a.edges.iter().enumerate() {
            g.add_edge(NodeIndex::new(u), NodeIndex::new(w), (i, x));
        }
        g
    };
    let c = condensation(g, make_acyclic);
    let (ids, k) = a.scc_ids();
    let what = if make_acyclic { "condensation(make_acyclic)" } else { "condensation" };
    ensure_eq!(c.node_count(), k, "C09/condensation-node-count", "{what}: node count");
    // each node of the result holds exactly one class
    let mut comp_of = vec![usize::MAX; a.n];
    for ci in c.node_indices() {
        let members = &c[ci];
        ensure!(!members.is_empty(), "C09/condensation-empty", "{what}: empty component");
        for &l in members {
            ensure!(l < a.n && comp_of[l] == usize::MAX, "C09/condensation-member", "{what}: node {l} listed twice or unknown");
            comp_of[l] = ci.index();
        }
    }
    for x in 0..a.n {
        ensure!(comp_of[x] != usize::MAX, "C09/condensation-member-missing", "{what}: node {x} missing");
        for y in 0..a.n {
            ensure_eq!(comp_of[x] == comp_of[y], ids[x] == ids[y], "C09/condensation-partition", "{what}: {x},{y} together");
        }
    }
    let norm = |p: usize, q: usize| if a.directed || p <= q { (p, q) } else { (q, p) };
    if !make_acyclic {
        let mut got: Vec<(usize, usize, usize, i32)> = c
            .edge_references()
            .map(|e| {
                let (p, q) = norm(e.source().index(), e.target().index());
                (p, q, e.weight().0, e.weight().1)
            })
            .collect();
        let mut exp: Vec<(usize, usize, usize, i32)> = a
            .edges
            .iter()
            .enumerate()
            .map(|(i, &(u, w, x))| {
                let (p, q) = norm(comp_of[u], comp_of[w]);
                (p, q, i, x)
            })
            .collect();
        got.sort();
        exp.sort();
        ensure_eq!(got, exp, "C09/condensation-edges", "{what}: mapped edge multiset");
    } else {
        let mut got: Vec<(usize, usize)> = Vec::new();
        for e in c.edge_references() {
            let (p, q) = (e.source().index(), e.target().index());
            ensure!(p != q, "C09/condensation-acyclic-loop", "{what}: self-loop on component {p}");
            let (i, x) = *e.weight();
            ensure!(
                i < a.m() && a.edges[i].2 == x && norm(comp_of[a.edges[i].0], comp_of[a.edges[i].1]) == norm(p, q),
                "C09/condensation-acyclic-weight",
                "{what}: edge {p}->{q} carries a weight that is not from an edge between these components"
            );
            got.push(norm(p, q));
        }
        let mut exp: Vec<(usize, usize)> = a
            .edges
            .iter()
            .filter(|&&(u, w, _)| comp_of[u] != comp_of[w])
            .map(|&(u, w, _)| norm(comp_of[u], comp_of[w]))
            .collect();
        got.sort();
        let before = got.len();
        got.dedup();
        ensure_eq!(got.len(), before, "C09/condensation-acyclic-parallel", "{what}: parallel edges");
        exp.sort();
        exp.dedup();
        ensure_eq!(got, exp, "C09/condensation-acyclic-edges", "{what}: edge set between components");
        if a.directed {
            ensure!(!is_cyclic_directed(&c), "C09/condensation-acyclic-cycle", "{what}: result has a cycle");
        }
    }
    Ok(())
}

pub fn run(c: &Case) -> Outcome {
    let a0 = c.g.build(&OPTS);
    let n = a0.n;
    let mut obs = Obs::default();
    let enc = c.enc % 8;
    // simple-graph-only encodings get the de-duplicated edge list
    let simple = AGraph {
        directed: a0.directed,
        n,
        edges: {
            let mut e: Vec<(usize, usize, i32)> = Vec::new();
            for &(u, w, x) in &a0.edges {
                if !e.iter().any(|&(p, q, _)| (p == u && q == w) || (!a0.directed && p == w && q == u)) {
                    e.push((u, w, x));
                }
            }
            e
        },
    };
    let a = if matches!(enc, 2 | 4 | 5) { &simple } else { &a0 };
    let gix = (0..n).map(NodeIndex::<u32>::new);
    match (enc, a.directed) {
        (0, true) | (6, true) => {
            let g: Graph<usize, i32, Directed, u32> = to_graph(a, |w| w);
            let v = View::full(a, gix);
            scc_kosaraju(&g, &v)?;
            scc_tarjan(&g, &v)?;
            topo_paths(&g, &v, &mut obs)?;
            cc(&g, &v)?;
            cyc_und(&g, &v)?;
            cond::<Directed>(a, enc == 6)?;
            obs.label("Graph directed");
        }
        (0, false) | (6, false) => {
            let g: Graph<usize, i32, Undirected, u32> = to_graph(a, |w| w);
            let v = View::full(a, gix);
            scc_kosaraju(&g, &v)?;
            scc_tarjan(&g, &v)?;
            topo_paths(&g, &v, &mut obs)?;
            cc(&g, &v)?;
            cyc_und(&g, &v)?;
            bip(&g, &v, c.start)?;
            cond::<Undirected>(a, enc == 6)?;
            obs.label("Graph undirected");
        }
        (1, true) | (7, true) => {
            let (g, map) = to_stable_holes::<i32, Directed, u32>(a, c.salt as u64 + 1, |w| w);
            let v = View::full(a, map);
            scc_kosaraju(&g, &v)?;
            scc_tarjan(&g, &v)?;
            topo_paths(&g, &v, &mut obs)?;
            cyc_und(&g, &v)?;
            obs.label("StableGraph directed, holes");
        }
        (1, false) | (7, false) => {
            let (g, map) = to_stable_holes::<i32, Undirected, u8>(a, c.salt as u64 + 1, |w| w);
            let v = View::full(a, map);
            scc_kosaraju(&g, &v)?;
            scc_tarjan(&g, &v)?;
            topo_paths(&g, &v, &mut obs)?;
            cyc_und(&g, &v)?;
            bip(&g, &v, c.start)?;
            obs.label("StableGraph undirected, holes");
        }
        (2, true) => {
            let g = to_graphmap::<i32, Directed>(a, |w| w);
            let v = View::full(a, (0..n).map(gm_key));
            scc_kosaraju(&g, &v)?;
            scc_tarjan(&g, &v)?;
            topo_paths(&g, &v, &mut obs)?;
            cc(&g, &v)?;
            cyc_und(&g, &v)?;
            obs.label("GraphMap directed");
        }
        (2, false) => {
            let g = to_graphmap::<i32, Undirected>(a, |w| w);
            let v = View::full(a, (0..n).map(gm_key));
            scc_kosaraju(&g, &v)?;
            scc_tarjan(&g, &v)?;
            topo_paths(&g, &v, &mut obs)?;
            cc(&g, &v)?;
            cyc_und(&g, &v)?;
            bip(&g, &v, c.start)?;
            obs.label("GraphMap undirected");
        }
        (3, true) => {
            let mut g: List<i32, u32> = List::new();
            for _ in 0..n {
                g.add_node();
            }
            for &(u, w, x) in &a.edges {
                g.add_edge(u as u32, w as u32, x);
            }
            let v = View::full(a, (0..n).map(|i| i as u32));
            scc_tarjan(&g, &v)?;
            cc(&g, &v)?;
            cyc_und(&g, &v)?;
            obs.label("adj::List");
        }
        (3, false) => {
            let g: Graph<usize, i32, Undirected, u16> = to_graph(a, |w| w);
            let v = View::full(a, (0..n).map(NodeIndex::<u16>::new));
            scc_tarjan(&g, &v)?;
            cc(&g, &v)?;
            cyc_und(&g, &v)?;
            bip(&g, &v, c.start)?;
            obs.label("Graph undirected");
        }
        (4, true) => {
            let g = to_csr::<i32, Directed>(a, |w| w);
            let v = View::full(a, (0..n).map(|i| i as u32));
            scc_tarjan(&g, &v)?;
            cc(&g, &v)?;
            cyc_und(&g, &v)?;
            obs.label("Csr directed");
        }
        (4, false) => {
            let g = to_csr::<i32, Undirected>(a, |w| w);
            let v = View::full(a, (0..n).map(|i| i as u32));
            scc_tarjan(&g, &v)?;
            cc(&g, &v)?;
            cyc_und(&g, &v)?;
            bip(&g, &v, c.start)?;
            obs.label("Csr undirected");
        }
        (_, true) => {
            let (g, map) = to_matrix_holes::<i32, Directed>(a, c.salt as u64 + 1, |w| w);
            let v = View::full(a, map);
            scc_kosaraju(&g, &v)?;
            scc_tarjan(&g, &v)?;
            topo_paths(&g, &v, &mut obs)?;
            cyc_und(&g, &v)?;
            obs.label("MatrixGraph directed, holes");
        }
        (_, false) => {
            let (g, map) = to_matrix_holes::<i32, Undirected>(a, c.salt as u64 + 1, |w| w);
            let v = View::full(a, map);
            scc_tarjan(&g, &v)?;
            cyc_und(&g, &v)?;
            bip(&g, &v, c.start)?;
            obs.label("MatrixGraph undirected, holes");
        }
    }
    let (ids, k) = a.scc_ids();
    let big = (0..k).any(|c| ids.iter().filter(|&&x| x == c).count() >= 2);
    obs.nontrivial = if a.directed { k >= 2 && big } else { k >= 2 };
    obs.label_if(k >= 2, ">=2 components");
    Ok(obs)
}

/// scope of the bounded-exhaustive sub-check: every labelled digraph on 1..=4 nodes and every
/// labelled undirected graph on 1..=5 nodes (6 in the thorough tier), loops included
fn scope(tier: Tier) -> (usize, usize) {
    if tier == Tier::Quick {
        (4, 5)
    } else {
        (4, 6)
    }
}
const ENUM_P: u64 = 8 * 4;
fn enum_count(tier: Tier) -> u64 {
    let (d, u) = scope(tier);
    small_graph_count(d, u) * ENUM_P
}
fn enum_make(tier: Tier, i: u64) -> Case {
    let (d, u) = scope(tier);
    let (dir, n, mask) = small_graph(i / ENUM_P, d, u).expect("index within the scope");
    let p = i % ENUM_P;
    Case { g: raw_explicit(dir, n, mask, 0), enc: (p % 8) as u8, salt: (i % 251) as u8, start: sel_for((p / 8) as usize % n, n) }
}

/// libFuzzer entry / from-bytes generator: bring a decoded case into the domain of `strategy`
pub fn fuzz_domain(c: &mut Case) -> bool {
    c.g.sanitize(0, 14, 44, None);
    true
}
pub fn bytes_strategy(_tier: Tier) -> BoxedStrategy<Case> {
    decoded_strategy(fuzz_domain)
}

pub fn property() -> Property {
    Property {
        id: "C09",
        rule: "random directed/undirected multigraphs with loops (0..=10 nodes quick; DAG, cycle, forest, multi-component, bipartite shapes) in Graph, StableGraph/MatrixGraph with vacancies, GraphMap, Csr, adj::List as the trait bounds allow; every listed function compared with Warshall closure / mutual-reachability classes / forest edge count / propagation 2-colouring; DfsSpace and TarjanScc reused across calls; non-trivial = >=2 SCCs with one of size >=2 (directed) or >=2 components (undirected); distinct by case fingerprint; bounded-exhaustive sub-check: every labelled digraph on 1..=4 nodes and undirected graph on 1..=5 nodes (6 thorough), loops included, x 8 encodings x start nodes",
        assumptions: &["is_bipartite_undirected and toposort/is_cyclic_directed are exercised only on undirected resp. directed graphs (their domain)"],
        both_profiles: false,
        subs: vec![sub_fuzz("connectivity/all", 4_000_000, 60_000_000, strategy, run, fuzz_domain), sub("connectivity/all-from-bytes", 600_000, 10_000_000, bytes_strategy, run), sub_enum("connectivity/all-small-graphs", enum_count, enum_make, run)],
    }
}
