//! Small helpers shared by the property modules.

/// Map a raw 16-bit selector monotonically onto 0..len (len > 0).  Shrinking the
/// selector towards 0 moves towards index 0.
#[inline]
pub fn pick(sel: u16, len: usize) -> usize {
    debug_assert!(len > 0);
    ((sel as usize) * len) >> 16
}

/// Sorted copy (multiset comparison helper).
pub fn sorted<T: Ord + Clone>(v: &[T]) -> Vec<T> {
    let mut v = v.to_vec();
    v.sort();
    v
}

pub fn sorted_iter<T: Ord, I: IntoIterator<Item = T>>(i: I) -> Vec<T> {
    let mut v: Vec<T> = i.into_iter().collect();
    v.sort();
    v
}

/// Permutation of 0..n obtained by arg-sorting keys (ties by position): a
/// shrink-friendly way to generate relabelings (all-equal keys = identity).
pub fn perm_from_keys(keys: &[u16], n: usize) -> Vec<usize> {
    let mut idx: Vec<usize> = (0..n).collect();
    idx.sort_by_key(|&i| (keys.get(i).copied().unwrap_or(0), i));
    // idx[rank] = original; we want perm[original] = rank
    let mut perm = vec![0; n];
    for (rank, &orig) in idx.iter().enumerate() {
        perm[orig] = rank;
    }
    perm
}

/// Iterator-protocol laws for an iterator type, given a way to make fresh copies of the same
/// iteration (`mk`).  The item sequence of a plain `next()` loop is the reference; checked against
/// it: `size_hint` brackets the number of remaining items at every position, `count`, `last`,
/// `nth` (also past the end) agree, and `next` keeps returning None after the end.  Returns the
/// reference sequence, or a description of the first law broken.
pub fn iter_laws<I, T>(mk: impl Fn() -> I, cap: usize) -> Result<Vec<T>, String>
where
    I: Iterator<Item = T>,
    T: PartialEq + std::fmt::Debug + Clone,
{
    iter_laws_by(mk, cap, |x: &T| x.clone())
}

/// `iter_laws` for items that are compared through a key (edge references are neither
/// `PartialEq` nor `Debug` in general).
pub fn iter_laws_by<I, T, K>(mk: impl Fn() -> I, cap: usize, key: impl Fn(&T) -> K) -> Result<Vec<K>, String>
where
    I: Iterator<Item = T>,
    K: PartialEq + std::fmt::Debug,
{
    let mut reference: Vec<K> = Vec::new();
    {
        let mut it = mk();
        loop {
            let (lo, hi) = it.size_hint();
            match it.next() {
                Some(x) => {
                    reference.push(key(&x));
                    if reference.len() > cap {
                        return Err(format!("more than {cap} items"));
                    }
                    // the hint taken before this item must have allowed for at least one more
                    if hi == Some(0) {
                        return Err(format!("size_hint upper bound 0 before item {} was yielded", reference.len() - 1));
                    }
                }
                None => {
                    if lo != 0 {
                        return Err(format!("size_hint lower bound {lo} at the end of the iteration"));
                    }
                    if it.next().is_some() {
                        return Err("next() yields an item after None".into());
                    }
                    break;
                }
            }
        }
    }
    let n = reference.len();
    // size_hint at every position
    {
        let mut it = mk();
        for k in 0..=n {
            let (lo, hi) = it.size_hint();
            let left = n - k;
            if lo > left || hi.map_or(false, |h| h < left) {
                return Err(format!("size_hint() = ({lo}, {hi:?}) with {left} of {n} items left"));
            }
            if k < n {
                it.next();
            }
        }
    }
    let c = mk().count();
    if c != n {
        return Err(format!("count() = {c}, a next() loop yields {n} items"));
    }
    let l = mk().last().map(|x| key(&x));
    if l.as_ref() != reference.last() {
        return Err(format!("last() = {l:?}, expected {:?}", reference.last()));
    }
    for k in [0usize, 1, n / 2, n.saturating_sub(1), n, n + 3] {
        let mut it = mk();
        let got = it.nth(k).map(|x| key(&x));
        if got.as_ref() != reference.get(k) {
            return Err(format!("nth({k}) = {got:?}, expected {:?}", reference.get(k)));
        }
        // nth consumes k+1 items: the rest follows
        let rest: Vec<K> = it.take(cap).map(|x| key(&x)).collect();
        let want = if k + 1 <= n { &reference[k + 1..] } else { &reference[n..] };
        if rest != want {
            return Err(format!("after nth({k}) the iterator yields {rest:?}, expected {want:?}"));
        }
    }
    Ok(reference)
}

/// Additional laws of a double-ended iterator: `rev()` yields the reference reversed, and taking
/// items alternately from both ends meets in the middle without loss or repetition.
pub fn iter_laws_double_ended<I, T>(mk: impl Fn() -> I, reference: &[T]) -> Result<(), String>
where
    I: DoubleEndedIterator<Item = T>,
    T: PartialEq + std::fmt::Debug,
{
    let n = reference.len();
    let back: Vec<T> = mk().rev().take(n + 2).collect();
    if back.len() != n || back.iter().zip(reference.iter().rev()).any(|(a, b)| a != b) {
        return Err(format!("rev() yields {back:?}, expected the reverse of {reference:?}"));
    }
    let mut it = mk();
    let (mut front, mut tail): (Vec<T>, Vec<T>) = (Vec::new(), Vec::new());
    for step in 0..n + 2 {
        let x = if step % 3 == 2 { it.next() } else { it.next_back() };
        match x {
            Some(x) if step % 3 == 2 => front.push(x),
            Some(x) => tail.push(x),
            None => break,
        }
    }
    tail.reverse();
    front.extend(tail);
    if front.len() != n || front.iter().zip(reference.iter()).any(|(a, b)| a != b) {
        return Err(format!("mixing next() and next_back() yields (in position order) {front:?}, expected {reference:?}"));
    }
    if it.next().is_some() || it.next_back().is_some() {
        return Err("items left after both ends met".into());
    }
    Ok(())
}

/// `ExactSizeIterator::len` equals the number of remaining items at every position.
pub fn iter_laws_exact<I, T>(mk: impl Fn() -> I, n: usize) -> Result<(), String>
where
    I: ExactSizeIterator<Item = T>,
{
    let mut it = mk();
    for k in 0..=n {
        if it.len() != n - k {
            return Err(format!("len() = {} with {} of {n} items left", it.len(), n - k));
        }
        if k < n {
            it.next();
        }
    }
    Ok(())
}

/// digits of `i` in base `base`, least significant first, exactly `len` of them
pub fn digits(mut i: u64, base: u64, len: usize) -> Vec<usize> {
    let mut v = Vec::with_capacity(len);
    for _ in 0..len {
        v.push((i % base) as usize);
        i /= base;
    }
    v
}
