#[macro_use]
mod engine;
mod agraph;
mod gmodel;
mod props;
mod util;

use engine::Tier;
use std::path::Path;

fn usage() -> i32 {
    eprintln!("usage: pgcheck run <Cxx> <quick|thorough> [--emit-json] [--only <sub>] | pgcheck replay <file> | pgcheck list");
    2
}

fn main() {
    // silent panic hook: panics are caught and judged by the oracles
    if std::env::var("PGCHECK_PANIC_TRACE").is_err() {
        std::panic::set_hook(Box::new(|_| {}));
    }
    let args: Vec<String> = std::env::args().skip(1).collect();
    let props = props::all();
    let code = match args.first().map(|s| s.as_str()) {
        Some("list") => {
            for p in &props {
                println!("{}: {}", p.id, p.subs.iter().map(|s| s.name().to_string()).collect::<Vec<_>>().join(", "));
            }
            0
        }
        Some("run") if args.len() >= 3 => {
            let tier = match args[2].as_str() {
                "quick" => Tier::Quick,
                "thorough" => Tier::Thorough,
                _ => std::process::exit(usage()),
            };
            let emit = args.iter().any(|a| a == "--emit-json");
            let only = args.iter().position(|a| a == "--only").and_then(|i| args.get(i + 1)).map(|s| s.as_str());
            engine::run_property(&props, &args[1], tier, emit, only)
        }
        Some("replay") if args.len() >= 2 => match engine::replay_file(&props, Path::new(&args[1])) {
            Err(e) => {
                eprintln!("{e}");
                2
            }
            Ok((p, s, Ok(obs))) => {
                println!("PASS property={p} sub={s} nontrivial={} labels={:?}", obs.nontrivial, obs.labels);
                0
            }
            Ok((p, s, Err(f))) => {
                println!("VIOLATION property={p} replay={}", args[1]);
                println!("  sub={s} signature: {}", f.sig);
                println!("  {}", f.msg);
                1
            }
        },
        _ => usage(),
    };
    std::process::exit(code);
}
