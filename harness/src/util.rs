//! Small helpers shared by the property modules.

/// Map a raw 16-bit selector monotonically onto 0..len (len > 0).  Shrinking the
/// selector towards 0 moves towards index 0.
#[inline]
pub fn pick(sel: u16, len: usize) -> usize {
    debug_assert!(len > 0);
    ((sel as usize) * len) >> 16
}

/// Sorted copy (multiset comparison helper).
pub fn sorted<T: Ord + Clone>(v: &[T]) -> Vec<T> {
    let mut v = v.to_vec();
    v.sort();
    v
}

pub fn sorted_iter<T: Ord, I: IntoIterator<Item = T>>(i: I) -> Vec<T> {
    let mut v: Vec<T> = i.into_iter().collect();
    v.sort();
    v
}

/// Permutation of 0..n obtained by arg-sorting keys (ties by position): a
/// shrink-friendly way to generate relabelings (all-equal keys = identity).
pub fn perm_from_keys(keys: &[u16], n: usize) -> Vec<usize> {
    let mut idx: Vec<usize> = (0..n).collect();
    idx.sort_by_key(|&i| (keys.get(i).copied().unwrap_or(0), i));
    // idx[rank] = original; we want perm[original] = rank
    let mut perm = vec![0; n];
    for (rank, &orig) in idx.iter().enumerate() {
        perm[orig] = rank;
    }
    perm
}
