//! C20 — maximal_cliques, dsatur_coloring, greedy_feedback_arc_set, tred, all_simple_paths,
//! steiner_tree, page_rank: each against its defining specification.

use crate::agraph::*;
use crate::engine::*;
use crate::util::{perm_from_keys, pick};
use petgraph::algo::steiner_tree::steiner_tree;
use petgraph::algo::tred::{dag_to_toposorted_adjacency_list, dag_transitive_reduction_closure};
use petgraph::algo::{all_simple_paths, dsatur_coloring, greedy_feedback_arc_set, maximal_cliques, page_rank};
use petgraph::graph::{Graph, NodeIndex, UnGraph};
use petgraph::visit::{
    EdgeRef, GetAdjacencyMatrix, GraphProp, IntoEdgeReferences, IntoEdges, IntoNeighbors, IntoNeighborsDirected,
    IntoNodeIdentifiers, NodeCount, NodeIndexable, Visitable,
};
use petgraph::{Directed, Undirected};
use proptest::prelude::*;
use serde::{Deserialize, Serialize};
use std::collections::hash_map::RandomState;
use std::hash::Hash;

#[derive(Debug, Clone, Serialize, Deserialize)]
pub struct Case {
    pub g: RawGraph,
    pub enc: u8,
    pub salt: u8,
    pub a: u16,
    pub b: u16,
    pub p: u8,
    pub q: u8,
    pub mask: u16,
}

fn strat(min_n: u8, max_n: u8, max_m: usize, dir: Option<bool>) -> BoxedStrategy<Case> {
    (raw_graph(min_n, max_n, max_m, dir), any::<u8>(), any::<u8>(), any::<u16>(), any::<u16>(), any::<u8>(), any::<u8>(), any::<u16>())
        .prop_map(|(g, enc, salt, a, b, p, q, mask)| Case { g, enc, salt, a, b, p, q, mask })
        .boxed()
}

trait Nid: Copy + Eq + Hash + std::fmt::Debug {}
impl<T: Copy + Eq + Hash + std::fmt::Debug> Nid for T {}

const SIMPLE_UND: GOpts = GOpts::new(false, false, 1, 6);

// ------------------------------------------------------------------ maximal cliques

fn cliques_strategy(tier: Tier) -> BoxedStrategy<Case> {
    if tier == Tier::Quick {
        strat(0, 8, 24, Some(false))
    } else {
        strat(0, 11, 44, Some(false))
    }
}

fn cliques_check<G>(g: G, v: &View<G::NodeId>, obs: &mut Obs) -> Result<(), Failure>
where
    G: GetAdjacencyMatrix + IntoNodeIdentifiers + IntoNeighbors + Copy,
    G::NodeId: Nid,
{
    let a = v.a;
    let n = a.n;
    let adj = a.adj_matrix();
    // all maximal cliques by subset enumeration
    let is_clique = |mask: u32| -> bool {
        for i in 0..n {
            if mask >> i & 1 == 0 {
                continue;
            }
            for j in (i + 1)..n {
                if mask >> j & 1 == 1 && !adj[i][j] {
                    return false;
                }
            }
        }
        true
    };
    let mut expect: Vec<u32> = Vec::new();
    // (the empty set is the one maximal clique of the graph without nodes)
    for mask in 0u32..(1u32 << n) {
        if !is_clique(mask) {
            continue;
        }
        let maximal = (0..n).all(|x| mask >> x & 1 == 1 || !is_clique(mask | 1 << x));
        if maximal {
            expect.push(mask);
        }
    }
    let got = maximal_cliques(g);
    let mut gm: Vec<u32> = Vec::new();
    for c in &got {
        let mut m = 0u32;
        for &x in c {
            m |= 1 << v.label(x, "maximal_cliques")?;
        }
        gm.push(m);
    }
    gm.sort();
    for w in gm.windows(2) {
        ensure!(w[0] != w[1], "C20/cliques-duplicate", "maximal_cliques reported the clique {:#b} twice", w[0]);
    }
    for &m in &gm {
        ensure!(is_clique(m), "C20/cliques-not-a-clique", "maximal_cliques reported {m:#b}, which is not a clique");
        ensure!(expect.contains(&m), "C20/cliques-not-maximal", "maximal_cliques reported {m:#b}, which is not maximal");
    }
    expect.sort();
    ensure_eq!(gm, expect, "C20/cliques-missing", "set of maximal cliques (bit masks over labels)");
    obs.nontrivial = expect.len() >= 2 && a.m() >= 2 && a.m() < n * (n - 1) / 2;
    Ok(())
}

fn cliques_run(c: &Case) -> Outcome {
    let a = c.g.build(&SIMPLE_UND);
    let n = a.n;
    let mut obs = Obs::default();
    let salt = c.salt as u64 + 1;
    match c.enc % 5 {
        0 => {
            let g: Graph<usize, i32, Undirected, u32> = to_graph(&a, |w| w);
            cliques_check(&g, &View::full(&a, (0..n).map(NodeIndex::new)), &mut obs)?;
            obs.label("Graph");
        }
        1 => {
            let (g, map) = to_stable_holes::<i32, Undirected, u32>(&a, salt, |w| w);
            cliques_check(&g, &View::full(&a, map), &mut obs)?;
            obs.label("StableGraph, holes");
        }
        2 => {
            let g = to_graphmap::<i32, Undirected>(&a, |w| w);
            cliques_check(&g, &View::full(&a, (0..n).map(gm_key)), &mut obs)?;
            obs.label("GraphMap");
        }
        3 => {
            let g = to_csr::<i32, Undirected>(&a, |w| w);
            cliques_check(&g, &View::full(&a, (0..n).map(|i| i as u32)), &mut obs)?;
            obs.label("Csr");
        }
        _ => {
            let (g, map) = to_matrix_holes::<i32, Undirected>(&a, salt, |w| w);
            cliques_check(&g, &View::full(&a, map), &mut obs)?;
            obs.label("MatrixGraph, holes");
        }
    }
    Ok(obs)
}

// ------------------------------------------------------------------ colouring

fn coloring_strategy(tier: Tier) -> BoxedStrategy<Case> {
    if tier == Tier::Quick {
        strat(0, 9, 24, Some(false))
    } else {
        strat(0, 14, 50, Some(false))
    }
}

fn coloring_check<G>(g: G, v: &View<G::NodeId>, obs: &mut Obs) -> Result<(), Failure>
where
    G: IntoEdges + IntoNodeIdentifiers + Visitable + NodeIndexable + Copy,
    G::NodeId: Nid,
{
    let a = v.a;
    let n = a.n;
    let (colors, k) = dsatur_coloring(g);
    ensure_eq!(colors.len(), n, "C20/coloring-entries", "number of coloured nodes");
    let mut col = vec![usize::MAX; n];
    for (&id, &c) in colors.iter() {
        col[v.label(id, "dsatur_coloring")?] = c;
    }
    for l in 0..n {
        ensure!(col[l] != usize::MAX, "C20/coloring-node-missing", "node {l} has no colour");
        ensure!(col[l] < k, "C20/coloring-colour-out-of-range", "node {l} has colour {} but {k} colours are reported", col[l]);
    }
    for &(x, y, _) in &a.edges {
        ensure!(col[x] != col[y], "C20/coloring-not-proper", "adjacent nodes {x},{y} share colour {}", col[x]);
    }
    if n > 0 {
        for c in 0..k {
            ensure!(col.contains(&c), "C20/coloring-unused-colour", "colour {c} of the reported {k} is never used");
        }
    }
    // bipartite graphs get at most two colours (DSATUR is exact on bipartite graphs)
    let adj = a.out_adj();
    let mut two = vec![2u8; n];
    let mut bip = true;
    for s in 0..n {
        if two[s] != 2 {
            continue;
        }
        two[s] = 0;
        let mut st = vec![s];
        while let Some(u) = st.pop() {
            for &(w, _) in &adj[u] {
                if two[w] == 2 {
                    two[w] = 1 - two[u];
                    st.push(w);
                } else if two[w] == two[u] {
                    bip = false;
                }
            }
        }
    }
    if bip && n > 0 {
        ensure!(k <= 2, "C20/coloring-bipartite-more-than-2", "bipartite graph coloured with {k} colours");
    }
    obs.nontrivial = a.m() >= 2 && (k >= 3 || (bip && a.m() >= 3));
    obs.label_if(bip && a.m() >= 1, "bipartite");
    Ok(())
}

fn coloring_run(c: &Case) -> Outcome {
    let a = c.g.build(&SIMPLE_UND);
    let n = a.n;
    let mut obs = Obs::default();
    let salt = c.salt as u64 + 1;
    match c.enc % 5 {
        0 => {
            let g: Graph<usize, i32, Undirected, u32> = to_graph(&a, |w| w);
            coloring_check(&g, &View::full(&a, (0..n).map(NodeIndex::new)), &mut obs)?;
        }
        1 => {
            let (g, map) = to_stable_holes::<i32, Undirected, u32>(&a, salt, |w| w);
            coloring_check(&g, &View::full(&a, map), &mut obs)?;
            obs.label("StableGraph, holes");
        }
        2 => {
            let g = to_graphmap::<i32, Undirected>(&a, |w| w);
            coloring_check(&g, &View::full(&a, (0..n).map(gm_key)), &mut obs)?;
        }
        3 => {
            let g = to_csr::<i32, Undirected>(&a, |w| w);
            coloring_check(&g, &View::full(&a, (0..n).map(|i| i as u32)), &mut obs)?;
        }
        _ => {
            let (g, map) = to_matrix_holes::<i32, Undirected>(&a, salt, |w| w);
            coloring_check(&g, &View::full(&a, map), &mut obs)?;
            obs.label("MatrixGraph, holes");
        }
    }
    Ok(obs)
}

// ------------------------------------------------------------------ feedback arc set

fn fas_strategy(tier: Tier) -> BoxedStrategy<Case> {
    if tier == Tier::Quick {
        strat(0, 10, 30, Some(true))
    } else {
        strat(0, 16, 70, Some(true))
    }
}

fn fas_check<G>(g: G, v: &View<G::NodeId>, obs: &mut Obs) -> Result<(), Failure>
where
    G: IntoEdgeReferences + GraphProp<EdgeType = Directed> + NodeCount + Copy,
    G::NodeId: Nid + petgraph::graph::GraphIndex,
    G::EdgeRef: EdgeRef<Weight = usize>,
{
    let a = v.a;
    // every edge carries its position in a.edges as weight
    let mut removed = vec![false; a.m()];
    for e in greedy_feedback_arc_set(g).take(a.m() + 2) {
        let i = *e.weight();
        ensure!(i < a.m(), "C20/fas-unknown-edge", "feedback arc set contains an unknown edge");
        let (x, y) = (v.label(e.source(), "fas")?, v.label(e.target(), "fas")?);
        ensure!((a.edges[i].0, a.edges[i].1) == (x, y), "C20/fas-unknown-edge", "edge reference with wrong endpoints");
        ensure!(!removed[i], "C20/fas-edge-twice", "edge {i} ({x}->{y}) reported twice");
        removed[i] = true;
    }
    for (i, &(x, y, _)) in a.edges.iter().enumerate() {
        if x == y {
            ensure!(removed[i], "C20/fas-loop-not-included", "self-loop {x}->{x} (edge {i}) is not in the feedback arc set");
        }
    }
    let rest = AGraph { directed: true, n: a.n, edges: a.edges.iter().enumerate().filter(|(i, _)| !removed[*i]).map(|(_, e)| *e).collect() };
    ensure!(!rest.has_directed_cycle(), "C20/fas-remaining-cycle", "removing the feedback arc set leaves a cycle");
    let (_, k) = a.scc_ids();
    obs.nontrivial = a.has_directed_cycle() && k < a.n && removed.iter().filter(|&&r| r).count() >= 1 && a.m() >= 3;
    Ok(())
}

fn fas_run(c: &Case) -> Outcome {
    let a = c.g.build(&GOpts::new(true, true, 1, 3));
    let n = a.n;
    let mut obs = Obs::default();
    let tagged = AGraph { directed: true, n, edges: a.edges.clone() };
    match c.enc % 3 {
        0 => {
            let mut g: Graph<usize, usize, Directed, u32> = Graph::new();
            for i in 0..n {
                g.add_node(i);
            }
            for (i, &(x, y, _)) in a.edges.iter().enumerate() {
                g.add_edge(NodeIndex::new(x), NodeIndex::new(y), i);
            }
            fas_check(&g, &View::full(&tagged, (0..n).map(NodeIndex::new)), &mut obs)?;
            obs.label("Graph");
        }
        _ => {
            // StableGraph with holes; weights = edge positions
            let idx = AGraph { directed: true, n, edges: a.edges.iter().enumerate().map(|(i, &(x, y, _))| (x, y, i as i32)).collect() };
            let (g, map) = to_stable_holes::<usize, Directed, u32>(&idx, c.salt as u64 + 1, |w| w as usize);
            fas_check(&g, &View::full(&tagged, map), &mut obs)?;
            obs.label("StableGraph, holes");
        }
    }
    Ok(obs)
}

// ------------------------------------------------------------------ transitive reduction / closure

fn tred_strategy(tier: Tier) -> BoxedStrategy<Case> {
    let (n, m) = if tier == Tier::Quick { (12, 40) } else { (18, 90) };
    (raw_graph(0, n, m, Some(true)), any::<u8>(), any::<u8>(), any::<u16>(), any::<u16>(), any::<u8>(), any::<u8>(), any::<u16>())
        .prop_map(|(mut g, enc, salt, a, b, p, q, mask)| {
            // only the DAG shapes
            g.shape = if g.shape % 2 == 0 { 2 } else { 6 };
            Case { g, enc, salt, a, b, p, q, mask }
        })
        .boxed()
}

fn tred_run(c: &Case) -> Outcome {
    let a = c.g.build(&GOpts::new(false, false, 1, 1));
    let n = a.n;
    let mut obs = Obs::default();
    assert!(!a.has_directed_cycle(), "generator must produce DAGs");
    let g: Graph<usize, i32, Directed, u32> = to_graph(&a, |w| w);
    // a valid topological order chosen by the case (Kahn with key-based tie breaks)
    let inn = a.in_adj();
    let mut placed = vec![false; n];
    let mut order: Vec<usize> = Vec::new();
    let tie = perm_from_keys(&c.g.keys.iter().rev().copied().collect::<Vec<_>>(), n);
    while order.len() < n {
        let mut cand: Vec<usize> = (0..n).filter(|&x| !placed[x] && inn[x].iter().all(|&(p, _)| placed[p])).collect();
        cand.sort_by_key(|&x| tie[x]);
        let x = cand[(c.salt as usize) % cand.len().min(2).max(1)];
        placed[x] = true;
        order.push(x);
    }
    let topo: Vec<NodeIndex<u32>> = order.iter().map(|&x| NodeIndex::new(x)).collect();
    let (res, revmap) = dag_to_toposorted_adjacency_list::<_, u32>(&g, &topo);
    ensure_eq!(res.node_count(), n, "C20/tred-list-node-count", "toposorted adjacency list: node count");
    ensure_eq!(revmap.len(), n, "C20/tred-revmap-len", "revmap length");
    let mut rank = vec![0usize; n];
    for (r, &x) in order.iter().enumerate() {
        rank[x] = r;
        ensure_eq!(revmap[x] as usize, r, "C20/tred-revmap", "revmap[{x}]");
    }
    // same graph under the renumbering, neighbours in topological (ascending rank) order
    let mut exp_edges: Vec<(usize, usize)> = a.edges.iter().map(|&(x, y, _)| (rank[x], rank[y])).collect();
    exp_edges.sort();
    let mut got_edges: Vec<(usize, usize)> = Vec::new();
    for i in 0..n {
        let ns: Vec<usize> = res.neighbors(i as u32).map(|x| x as usize).collect();
        for w in ns.windows(2) {
            ensure!(w[0] <= w[1], "C20/tred-list-neighbour-order", "neighbours of rank {i} are not in topological order: {ns:?}");
        }
        got_edges.extend(ns.into_iter().map(|y| (i, y)));
    }
    got_edges.sort();
    ensure_eq!(got_edges, exp_edges, "C20/tred-list-edges", "edges of the toposorted adjacency list");

    let (tred, tclos) = dag_transitive_reduction_closure(&res);
    ensure_eq!(tred.node_count(), n, "C20/tred-node-count", "reduction node count");
    ensure_eq!(tclos.node_count(), n, "C20/tclos-node-count", "closure node count");
    // oracle over ranks
    let ra = AGraph { directed: true, n, edges: exp_edges.iter().map(|&(x, y)| (x, y, 1)).collect() };
    let rp = ra.reach_plus();
    let adjm = ra.adj_matrix();
    let mut exp_clos = Vec::new();
    let mut exp_red = Vec::new();
    for x in 0..n {
        for y in 0..n {
            if rp[x][y] {
                exp_clos.push((x, y));
            }
            // edge x->y is in the reduction iff no intermediate z with x ~> z ~> y
            if adjm[x][y] && !(0..n).any(|z| z != x && z != y && rp[x][z] && rp[z][y]) {
                exp_red.push((x, y));
            }
        }
    }
    let collect = |l: &petgraph::adj::UnweightedList<u32>| -> Vec<(usize, usize)> {
        let mut v: Vec<(usize, usize)> = (0..n).flat_map(|i| l.neighbors(i as u32).map(move |y| (i, y as usize)).collect::<Vec<_>>()).collect();
        v.sort();
        v
    };
    ensure_eq!(collect(&tclos), exp_clos, "C20/tclos-edges", "transitive closure (pairs of ranks)");
    ensure_eq!(collect(&tred), exp_red, "C20/tred-edges", "transitive reduction (pairs of ranks)");
    obs.nontrivial = exp_red.len() < a.m() && exp_red.len() >= 2;
    Ok(obs)
}

// ------------------------------------------------------------------ all_simple_paths

fn paths_strategy(tier: Tier) -> BoxedStrategy<Case> {
    if tier == Tier::Quick {
        strat(2, 7, 20, Some(true))
    } else {
        strat(2, 9, 30, Some(true))
    }
}

fn paths_check<G>(g: G, v: &View<G::NodeId>, c: &Case, obs: &mut Obs) -> Result<(), Failure>
where
    G: NodeCount + IntoNeighborsDirected + Copy,
    G::NodeId: Nid,
{
    let a = v.a;
    let n = a.n;
    let from = pick(c.a, n);
    let mut to = pick(c.b, n);
    if to == from {
        to = (from + 1) % n;
    }
    if to == from {
        // a single node: the same endpoint twice asks for closed walks, not for simple paths
        return Ok(());
    }
    let min_i = (c.p % 4) as usize;
    let max_i: Option<usize> = match c.q % 6 {
        0 | 1 => None,
        x => Some(x as usize - 2 + if c.q >= 128 { 2 } else { 0 }),
    };
    // brute force enumeration: paths as node sequences, one per choice of parallel edges
    let adj = a.out_adj();
    let simple = a.is_simple();
    let mut expect: Vec<Vec<usize>> = Vec::new();
    fn rec(adj: &[Vec<(usize, usize)>], to: usize, path: &mut Vec<usize>, out: &mut Vec<Vec<usize>>) {
        let u = *path.last().unwrap();
        for &(w, _) in &adj[u] {
            if w == to {
                let mut p = path.clone();
                p.push(to);
                out.push(p);
            } else if !path.contains(&w) {
                path.push(w);
                rec(adj, to, path, out);
                path.pop();
            }
        }
    }
    rec(&adj, to, &mut vec![from], &mut expect);
    let upper = max_i.unwrap_or(n.saturating_sub(2));
    expect.retain(|p| {
        let k = p.len() - 2;
        k >= min_i && k <= upper
    });
    let limit = expect.len() * 2 + 8;
    let got: Vec<Vec<G::NodeId>> = all_simple_paths::<Vec<_>, _, RandomState>(g, v.id(from), v.id(to), min_i, max_i).take(limit).collect();
    let mut gl: Vec<Vec<usize>> = Vec::new();
    for p in &got {
        let lp: Vec<usize> = p.iter().map(|&x| v.label(x, "all_simple_paths")).collect::<Result<_, _>>()?;
        ensure!(lp.first() == Some(&from) && lp.last() == Some(&to), "C20/paths-endpoints", "path {lp:?} does not run from {from} to {to}");
        let mut s = lp.clone();
        s.sort();
        s.dedup();
        ensure_eq!(s.len(), lp.len(), "C20/paths-not-simple", "path {lp:?} repeats a node");
        for w in lp.windows(2) {
            ensure!(a.min_edge(w[0], w[1]).is_some(), "C20/paths-non-edge", "path {lp:?} uses the non-edge {}->{}", w[0], w[1]);
        }
        let k = lp.len() - 2;
        ensure!(k >= min_i && k <= upper, "C20/paths-length-bounds", "path {lp:?} has {k} intermediate nodes, bounds {min_i}..={upper}");
        gl.push(lp);
    }
    gl.sort();
    expect.sort();
    if simple {
        ensure_eq!(gl, expect, "C20/paths-set", "all_simple_paths({from}->{to}, min {min_i}, max {max_i:?}) on a simple graph (as a multiset)");
    } else {
        gl.dedup();
        expect.dedup();
        ensure_eq!(gl, expect, "C20/paths-set", "all_simple_paths({from}->{to}, min {min_i}, max {max_i:?}) (as a set)");
    }
    let lens: std::collections::BTreeSet<usize> = expect.iter().map(|p| p.len()).collect();
    obs.nontrivial = expect.len() >= 2 && lens.len() >= 2;
    obs.label_if(max_i.is_some(), "max bound given");
    obs.label_if(simple, "simple graph");
    Ok(())
}

fn paths_run(c: &Case) -> Outcome {
    let a0 = c.g.build(&GOpts::new(true, c.mask & 1 == 1, 1, 1));
    let n = a0.n;
    let mut obs = Obs::default();
    let simple = super::c10::simplified_min(&a0);
    let enc = c.enc % 4;
    let a = if enc >= 2 { &simple } else { &a0 };
    match enc {
        0 => {
            let g: Graph<usize, i32, Directed, u32> = to_graph(a, |w| w);
            paths_check(&g, &View::full(a, (0..n).map(NodeIndex::new)), c, &mut obs)?;
            obs.label("Graph");
        }
        1 => {
            let (g, map) = to_stable_holes::<i32, Directed, u32>(a, c.salt as u64 + 1, |w| w);
            paths_check(&g, &View::full(a, map), c, &mut obs)?;
            obs.label("StableGraph, holes");
        }
        2 => {
            let g = to_graphmap::<i32, Directed>(a, |w| w);
            paths_check(&g, &View::full(a, (0..n).map(gm_key)), c, &mut obs)?;
            obs.label("GraphMap");
        }
        _ => {
            let (g, map) = to_matrix_holes::<i32, Directed>(a, c.salt as u64 + 1, |w| w);
            paths_check(&g, &View::full(a, map), c, &mut obs)?;
            obs.label("MatrixGraph, holes");
        }
    }
    Ok(obs)
}

// ------------------------------------------------------------------ steiner_tree

fn steiner_strategy(tier: Tier) -> BoxedStrategy<Case> {
    if tier == Tier::Quick {
        strat(2, 8, 22, Some(false))
    } else {
        strat(2, 10, 32, Some(false))
    }
}

/// optimum Steiner tree weight by DP over terminal subsets (Dreyfus-Wagner)
fn steiner_opt(a: &AGraph, terms: &[usize]) -> i64 {
    let n = a.n;
    let dist: Vec<Vec<i64>> = (0..n).map(|s| a.dist_from(s).unwrap()).collect();
    let k = terms.len();
    let full = (1usize << k) - 1;
    let mut dp = vec![vec![INF; n]; 1 << k];
    for (i, &t) in terms.iter().enumerate() {
        for v in 0..n {
            dp[1 << i][v] = dist[t][v];
        }
    }
    for mask in 1..=full {
        if mask & (mask - 1) == 0 {
            continue;
        }
        for v in 0..n {
            let mut sub = (mask - 1) & mask;
            while sub > 0 {
                let other = mask ^ sub;
                if dp[sub][v] < INF && dp[other][v] < INF {
                    dp[mask][v] = dp[mask][v].min(dp[sub][v] + dp[other][v]);
                }
                sub = (sub - 1) & mask;
            }
        }
        for v in 0..n {
            for u in 0..n {
                if dp[mask][u] < INF && dist[u][v] < INF {
                    let c = dp[mask][u] + dist[u][v];
                    if c < dp[mask][v] {
                        dp[mask][v] = c;
                    }
                }
            }
        }
    }
    (0..n).map(|v| dp[full][v]).min().unwrap_or(0)
}

fn steiner_run(c: &Case) -> Outcome {
    let mut a = c.g.build(&GOpts::new(false, false, 1, if c.mask & 1 == 1 { 3 } else { 9 }));
    let n = a.n;
    // make the graph connected: join the components along a path of fresh edges
    let (ids, k) = a.wcc_ids();
    if k > 1 {
        let reps: Vec<usize> = (0..k).map(|c| (0..n).find(|&x| ids[x] == c).unwrap()).collect();
        for w in reps.windows(2) {
            a.edges.push((w[0], w[1], 1 + (c.p as i32 % 5)));
        }
    }
    let mut obs = Obs::default();
    // terminals: at least two distinct nodes
    let mut terms: Vec<usize> = (0..n).filter(|&i| (c.mask >> (1 + i % 15)) & 1 == 1).collect();
    for extra in [pick(c.a, n), pick(c.b, n)] {
        if terms.len() < 2 && !terms.contains(&extra) {
            terms.push(extra);
        }
    }
    if terms.len() < 2 {
        terms = vec![0, n - 1];
    }
    terms.sort();
    let g: UnGraph<usize, i32, u32> = to_graph(&a, |w| w);
    let tids: Vec<NodeIndex<u32>> = terms.iter().map(|&t| NodeIndex::new(t)).collect();
    let tree = steiner_tree(&g, &tids);

    // subgraph of g: nodes keep index and weight, edges are edges of g with their weight
    let mut present = vec![false; n];
    for x in tree.node_indices() {
        ensure!(x.index() < n && tree[x] == x.index(), "C20/steiner-unknown-node", "result contains node {x:?} that is not a node of the graph");
        present[x.index()] = true;
    }
    let mut used = vec![false; a.m()];
    let mut tedges: Vec<(usize, usize, i32)> = Vec::new();
    for e in tree.edge_references() {
        let (x, y, w) = (e.source().index(), e.target().index(), *e.weight());
        let hit = (0..a.m()).find(|&i| !used[i] && a.edges[i].2 == w && ((a.edges[i].0, a.edges[i].1) == (x, y) || (a.edges[i].0, a.edges[i].1) == (y, x)));
        ensure!(hit.is_some(), "C20/steiner-edge-not-in-graph", "result edge {x}-{y} (weight {w}) is not an edge of the graph");
        used[hit.unwrap()] = true;
        ensure!(present[x] && present[y], "C20/steiner-dangling-edge", "result edge {x}-{y} has an endpoint that is not in the result");
        tedges.push((x, y, w));
    }
    for &t in &terms {
        ensure!(present[t], "C20/steiner-terminal-missing", "terminal {t} is not in the result");
    }
    let tn = present.iter().filter(|&&p| p).count();
    let t = AGraph { directed: false, n, edges: tedges.clone() };
    let r = t.reach();
    for x in 0..n {
        if present[x] {
            ensure!(r[terms[0]][x], "C20/steiner-disconnected", "result is not connected: node {x} cannot be reached from terminal {}", terms[0]);
        }
    }
    // leaves are terminals
    for x in 0..n {
        if present[x] && t.degree(x) <= 1 && tn > 1 {
            ensure!(terms.contains(&x), "C20/steiner-non-terminal-leaf", "non-terminal node {x} is a leaf of the result");
        }
    }
    let weight: i64 = tedges.iter().map(|e| e.2 as i64).sum();
    let opt = steiner_opt(&a, &terms);
    if tedges.len() + 1 != tn {
        // connected (checked above) but not a tree: cycle
        // Known root cause: the union of the chosen shortest paths is returned without the second
        // spanning-tree pass of Kou's algorithm; recognised by: dropping a spanning tree's complement fixes it.
        return fail(
            "C20/steiner-cycle-union-of-shortest-paths",
            format!("result is connected and spans the terminals but has {} edges on {} nodes: it contains a cycle (terminals {terms:?}, edges {tedges:?})", tedges.len(), tn),
        );
    }
    ensure!(weight <= 2 * opt, "C20/steiner-weight-bound", "result weighs {weight}, more than twice the optimum {opt}");
    ensure!(weight >= opt, "C20/oracle-self-check", "result weighs {weight}, less than the computed optimum {opt}");
    let needs_steiner_node = (0..n).any(|x| present[x] && !terms.contains(&x));
    obs.nontrivial = needs_steiner_node && terms.len() >= 2 && terms.len() < n;
    obs.label_if(weight > opt, "approximation not optimal");
    Ok(obs)
}

// ------------------------------------------------------------------ page_rank

fn pr_strategy(tier: Tier) -> BoxedStrategy<Case> {
    if tier == Tier::Quick {
        strat(0, 8, 24, Some(true))
    } else {
        strat(0, 12, 50, Some(true))
    }
}

fn pr_run(c: &Case) -> Outcome {
    let a = c.g.build(&GOpts::new(true, true, 1, 1));
    let n = a.n;
    let mut obs = Obs::default();
    let d = [0.25f64, 0.5, 0.85, 1.0][(c.p % 4) as usize];
    let iters = (c.q % 31) as usize;
    let g: Graph<usize, i32, Directed, u32> = to_graph(&a, |w| w);
    let r = page_rank(&g, d, iters);
    ensure_eq!(r.len(), n, "C20/page_rank-length", "length of the rank vector");
    if n == 0 {
        return Ok(obs);
    }
    let mut sum = 0.0;
    for (i, &x) in r.iter().enumerate() {
        ensure!(x >= 0.0 && x.is_finite(), "C20/page_rank-negative-or-nan", "rank of node {i} is {x}");
        sum += x;
    }
    ensure!((sum - 1.0).abs() < 1e-9, "C20/page_rank-sum", "ranks sum to {sum}");
    // equivariance under relabeling
    let perm = perm_from_keys(&c.g.keys.iter().map(|k| k.rotate_left(5) ^ c.mask).collect::<Vec<_>>(), n);
    let b = a.relabel(&perm);
    let gb: Graph<usize, i32, Directed, u32> = to_graph(&b, |w| w);
    let rb = page_rank(&gb, d, iters);
    for i in 0..n {
        let (x, y) = (r[i], rb[perm[i]]);
        ensure!((x - y).abs() <= 1e-9 * (1.0 + x.abs()), "C20/page_rank-relabel", "rank of node {i} is {x}, after relabeling ({} ) it is {y} (damping {d}, {iters} iterations)", perm[i]);
    }
    // f32 variant: same properties with a looser tolerance
    let r32 = page_rank(&g, d as f32, iters);
    let s32: f32 = r32.iter().sum();
    ensure!(r32.len() == n && (s32 - 1.0).abs() < 1e-4 && r32.iter().all(|x| *x >= 0.0), "C20/page_rank-f32", "f32 ranks {r32:?} (sum {s32})");
    for i in 0..n {
        ensure!((r32[i] as f64 - r[i]).abs() < 1e-3, "C20/page_rank-f32-vs-f64", "node {i}: f32 rank {} vs f64 rank {}", r32[i], r[i]);
    }
    let asym = r.iter().any(|x| (x - r[0]).abs() > 1e-6);
    obs.nontrivial = asym && iters >= 1 && a.m() >= 2;
    Ok(obs)
}

/// scope of the bounded-exhaustive sub-check: every labelled digraph on 1..=4 nodes and every
/// labelled undirected graph on 1..=5 nodes (6 in the thorough tier), loops included
fn scope(tier: Tier) -> (usize, usize) {
    if tier == Tier::Quick {
        (4, 5)
    } else {
        (4, 6)
    }
}
fn und_count(_tier: Tier) -> u64 {
    small_simple_und_count(7)
}
fn und_make(_tier: Tier, i: u64) -> Case {
    let (n, mask) = small_simple_und(i, 7).expect("index within the scope");
    Case { g: raw_explicit_und_loopless(n, mask, 0), enc: (i % 5) as u8, salt: (i % 251) as u8, a: 0, b: sel_for(n - 1, n), p: 0, q: 0, mask: 0xffff }
}
const DIR_P: u64 = 5 * 4;
fn dir_count(tier: Tier) -> u64 {
    small_graph_count(scope(tier).0, 0) * DIR_P
}
fn dir_make(tier: Tier, i: u64) -> Case {
    let (dir, n, mask) = small_graph(i / DIR_P, scope(tier).0, 0).expect("index within the scope");
    let p = i % DIR_P;
    // a = path start, b = path end, p/q = bounds selectors of all_simple_paths
    Case { g: raw_explicit(dir, n, mask, 0), enc: (p % 5) as u8, salt: (i % 251) as u8, a: sel_for((p / 5) as usize % n, n), b: sel_for((i / 7) as usize % n, n), p: (i % 4) as u8, q: (i % 6) as u8, mask: 0xffff }
}

pub fn property() -> Property {
    Property {
        id: "C20",
        rule: "seven sub-checks, each over random graphs of the algorithm's documented domain (sizes for the quick tier): maximal_cliques (simple undirected, <=8 nodes, 5 encodings incl. StableGraph/MatrixGraph with vacancies; equal as a set of sets to subset enumeration, no duplicates); dsatur_coloring (<=9 nodes; proper, colours 0..k-1 all used, k<=2 on bipartite graphs); greedy_feedback_arc_set (directed multigraphs with loops <=10 nodes, Graph and StableGraph with holes; distinct real edges, all loops, remainder acyclic); tred (simple DAGs <=12 nodes, a generated valid topological order; renumbered list, closure and reduction equal to Warshall-based definitions); all_simple_paths (directed, from != to, min 0..3, max None or 0..5; equal to DFS enumeration, as multiset on simple graphs); steiner_tree (connected simple undirected, weights 1..9 or 1..3, 2..n terminals; subgraph, connected, tree, terminals, leaves, weight <= 2*optimum from a Dreyfus-Wagner DP); page_rank (damping .25/.5/.85/1, 0..30 iterations; length, non-negativity, sum 1, equivariance under relabeling, f32 vs f64). Non-trivial per sub-check: >=2 maximal cliques on a non-complete graph; chromatic result >=3 or bipartite with >=3 edges; cyclic with >=2 SCCs; reduction smaller than the graph; >=2 paths of different lengths; a non-terminal node in the tree; asymmetric ranks. Distinct by case fingerprint; bounded-exhaustive sub-checks: cliques and colouring on every loop-free undirected graph on 1..=7 nodes, feedback arc sets and simple paths on every digraph on 1..=4 nodes (loops included) x encodings x endpoints x bounds",
        assumptions: &[
            "page_rank with damping 0 is degenerate (division by a zero sum on edgeless graphs) and is not generated",
            "tred is exercised on simple DAGs only (its documented input format)",
        ],
        both_profiles: false,
        subs: vec![
            sub("cliques/maximal", 500_000, 8_000_000, cliques_strategy, cliques_run),
            sub_enum("cliques/all-simple-graphs-to-7-nodes", und_count, und_make, cliques_run),
            sub_enum("coloring/all-simple-graphs-to-7-nodes", und_count, und_make, coloring_run),
            sub_enum("fas/all-small-digraphs", dir_count, dir_make, fas_run),
            sub_enum("simple_paths/all-small-digraphs", dir_count, dir_make, paths_run),
            sub("coloring/dsatur", 600_000, 10_000_000, coloring_strategy, coloring_run),
            sub("fas/greedy", 800_000, 20_000_000, fas_strategy, fas_run),
            sub("tred/reduction+closure", 600_000, 15_000_000, tred_strategy, tred_run),
            sub("simple_paths/all", 800_000, 20_000_000, paths_strategy, paths_run),
            sub("steiner/tree", 600_000, 10_000_000, steiner_strategy, steiner_run),
            sub("page_rank/laws", 400_000, 10_000_000, pr_strategy, pr_run),
        ],
    }
}
