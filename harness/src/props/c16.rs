//! C16 — dominators::simple_fast and articulation_points against their path-based definitions.

use crate::agraph::*;
use crate::engine::*;
use crate::util::pick;
use petgraph::adj::List;
use petgraph::algo::articulation_points::articulation_points;
use petgraph::algo::dominators::simple_fast;
use petgraph::graph::{Graph, NodeIndex};
use petgraph::visit::{GraphProp, IntoEdges, IntoNeighbors, IntoNodeReferences, NodeIndexable, Visitable};
use petgraph::{Directed, Undirected};
use proptest::prelude::*;
use serde::{Deserialize, Serialize};
use std::hash::Hash;

#[derive(Debug, Clone, Serialize, Deserialize)]
pub struct Case {
    pub g: RawGraph,
    pub enc: u8,
    pub salt: u8,
    pub root: u16,
}

pub fn d_strategy(tier: Tier) -> BoxedStrategy<Case> {
    let (maxn, maxm) = if tier == Tier::Quick { (9, 22) } else { (13, 36) };
    (raw_graph(1, maxn, maxm, Some(true)), any::<u8>(), any::<u8>(), any::<u16>())
        .prop_map(|(g, enc, salt, root)| Case { g, enc, salt, root })
        .boxed()
}

pub fn a_strategy(tier: Tier) -> BoxedStrategy<Case> {
    let (maxn, maxm) = if tier == Tier::Quick { (10, 18) } else { (14, 30) };
    (raw_graph(0, maxn, maxm, Some(false)), any::<u8>(), any::<u8>(), any::<u16>())
        .prop_map(|(g, enc, salt, root)| Case { g, enc, salt, root })
        .boxed()
}

const OPTS: GOpts = GOpts::new(true, true, 1, 5);

trait Nid: Copy + Eq + Hash + std::fmt::Debug {}
impl<T: Copy + Eq + Hash + std::fmt::Debug> Nid for T {}

fn reach_avoiding(adj: &[Vec<(usize, usize)>], s: usize, avoid: Option<usize>) -> Vec<bool> {
    let n = adj.len();
    let mut seen = vec![false; n];
    if Some(s) == avoid {
        return seen;
    }
    seen[s] = true;
    let mut st = vec![s];
    while let Some(u) = st.pop() {
        for &(w, _) in &adj[u] {
            if Some(w) != avoid && !seen[w] {
                seen[w] = true;
                st.push(w);
            }
        }
    }
    seen
}

fn dominators_check<G>(g: G, v: &View<G::NodeId>, root: usize, obs: &mut Obs) -> Result<(), Failure>
where
    G: IntoNeighbors + Visitable + Copy,
    G::NodeId: Nid,
{
    let a = v.a;
    let n = a.n;
    let adj = a.out_adj();
    let reach = reach_avoiding(&adj, root, None);
    // dom[x][y]: x dominates y (for reachable y)
    let mut dom = vec![vec![false; n]; n];
    for x in 0..n {
        if !reach[x] {
            continue;
        }
        let r2 = reach_avoiding(&adj, root, Some(x));
        for y in 0..n {
            if reach[y] && (x == y || !r2[y]) {
                dom[x][y] = true;
            }
        }
    }
    let idom: Vec<Option<usize>> = (0..n)
        .map(|y| {
            if !reach[y] || y == root {
                return None;
            }
            let strict: Vec<usize> = (0..n).filter(|&x| x != y && dom[x][y]).collect();
            // the strict dominator that every other strict dominator dominates
            let c: Vec<usize> = strict.iter().copied().filter(|&d| strict.iter().all(|&o| dom[o][d])).collect();
            assert_eq!(c.len(), 1, "oracle: idom must be unique");
            Some(c[0])
        })
        .collect();

    let d = simple_fast(g, v.id(root));
    ensure_eq!(v.label(d.root(), "root()")?, root, "C16/dominators-root", "root()");
    for y in 0..n {
        let got = match d.immediate_dominator(v.id(y)) {
            Some(x) => Some(v.label(x, "immediate_dominator")?),
            None => None,
        };
        ensure_eq!(got, idom[y], "C16/immediate_dominator", "immediate_dominator({y}) with root {root}");
        let collect = |it: Option<petgraph::algo::dominators::DominatorsIter<'_, G::NodeId>>, what: &str| -> Result<Option<Vec<usize>>, Failure> {
            match it {
                None => Ok(None),
                Some(it) => {
                    let mut out = Vec::new();
                    for x in it.take(n + 2) {
                        out.push(v.label(x, what)?);
                    }
                    ensure!(out.len() <= n, format!("C16/{what}-too-long"), "{what}({y}) yields more than {n} nodes");
                    Ok(Some(out))
                }
            }
        };
        let doms = collect(d.dominators(v.id(y)), "dominators")?;
        let sdoms = collect(d.strict_dominators(v.id(y)), "strict_dominators")?;
        if !reach[y] {
            ensure!(doms.is_none(), "C16/dominators-unreachable-entry", "dominators({y}) is Some for a node unreachable from {root}");
            ensure!(sdoms.is_none(), "C16/strict_dominators-unreachable-entry", "strict_dominators({y}) is Some for an unreachable node");
        } else {
            let exp: Vec<usize> = (0..n).filter(|&x| dom[x][y]).collect();
            let Some(mut got) = doms else {
                return fail("C16/dominators-missing", format!("dominators({y}) is None for a node reachable from {root}"));
            };
            ensure_eq!(got.first().copied(), Some(y), "C16/dominators-order", "dominators({y}) starts with the node itself");
            ensure_eq!(got.last().copied(), Some(root), "C16/dominators-order", "dominators({y}) ends with the root");
            got.sort();
            let before = got.len();
            got.dedup();
            ensure_eq!(before, got.len(), "C16/dominators-duplicate", "dominators({y}) yields a node twice");
            ensure_eq!(got, exp, "C16/dominators-set", "dominators({y}) with root {root}");
            let Some(mut sgot) = sdoms else {
                return fail("C16/strict_dominators-missing", format!("strict_dominators({y}) is None for a reachable node"));
            };
            sgot.sort();
            let sexp: Vec<usize> = exp.iter().copied().filter(|&x| x != y).collect();
            ensure_eq!(sgot, sexp, "C16/strict_dominators-set", "strict_dominators({y}) with root {root}");
        }
        let mut kids: Vec<usize> = d.immediately_dominated_by(v.id(y)).take(n + 2).map(|x| v.label(x, "immediately_dominated_by")).collect::<Result<_, _>>()?;
        kids.sort();
        let kexp: Vec<usize> = (0..n).filter(|&z| idom[z] == Some(y)).collect();
        ensure_eq!(kids, kexp, "C16/immediately_dominated_by", "immediately_dominated_by({y}) with root {root}");
    }
    // depth >= 2 with a join: some node whose idom is not one of its predecessors
    let inn = a.in_adj();
    let join = (0..n).any(|y| idom[y].map_or(false, |i| inn[y].len() >= 2 && !inn[y].iter().any(|&(p, _)| p == i)));
    let depth2 = (0..n).any(|y| idom[y].and_then(|i| idom[i]).is_some());
    obs.nontrivial = join && depth2;
    obs.label_if(reach.iter().any(|&r| !r), "unreachable part");
    obs.label_if(join, "join (idom is not a predecessor)");
    Ok(())
}

pub fn d_run(c: &Case) -> Outcome {
    let a0 = c.g.build(&OPTS);
    let n = a0.n;
    let root = pick(c.root, n);
    let mut obs = Obs::default();
    let enc = c.enc % 6;
    let simple = super::c10::simplified_min(&a0);
    let a = if matches!(enc, 2 | 3 | 4) { &simple } else { &a0 };
    let salt = c.salt as u64 + 1;
    match enc {
        0 => {
            let g: Graph<usize, i32, Directed, u32> = to_graph(a, |w| w);
            dominators_check(&g, &View::full(a, (0..n).map(NodeIndex::new)), root, &mut obs)?;
            obs.label("Graph");
        }
        1 => {
            let (g, map) = to_stable_holes::<i32, Directed, u32>(a, salt, |w| w);
            dominators_check(&g, &View::full(a, map), root, &mut obs)?;
            obs.label("StableGraph, holes");
        }
        2 => {
            let g = to_graphmap::<i32, Directed>(a, |w| w);
            dominators_check(&g, &View::full(a, (0..n).map(gm_key)), root, &mut obs)?;
            obs.label("GraphMap");
        }
        3 => {
            let g = to_csr::<i32, Directed>(a, |w| w);
            dominators_check(&g, &View::full(a, (0..n).map(|i| i as u32)), root, &mut obs)?;
            obs.label("Csr");
        }
        4 => {
            let (g, map) = to_matrix_holes::<i32, Directed>(a, salt, |w| w);
            dominators_check(&g, &View::full(a, map), root, &mut obs)?;
            obs.label("MatrixGraph, holes");
        }
        _ => {
            let mut g: List<i32, u32> = List::new();
            for _ in 0..n {
                g.add_node();
            }
            for &(u, w, x) in &a.edges {
                g.add_edge(u as u32, w as u32, x);
            }
            dominators_check(&g, &View::full(a, (0..n).map(|i| i as u32)), root, &mut obs)?;
            obs.label("adj::List");
        }
    }
    Ok(obs)
}

fn ap_check<G>(g: G, v: &View<G::NodeId>, obs: &mut Obs) -> Result<(), Failure>
where
    G: IntoNodeReferences + IntoEdges + NodeIndexable + GraphProp + Copy,
    G::NodeId: Nid,
    G::NodeWeight: Clone,
    G::EdgeWeight: Clone + PartialOrd,
{
    let a = v.a;
    let n = a.n;
    let adj = a.out_adj();
    let comps = |avoid: Option<usize>| -> usize {
        let mut seen = vec![false; n];
        let mut c = 0;
        for s in 0..n {
            if Some(s) == avoid || seen[s] {
                continue;
            }
            c += 1;
            for (i, r) in reach_avoiding(&adj, s, avoid).into_iter().enumerate() {
                if r {
                    seen[i] = true;
                }
            }
        }
        c
    };
    let base = comps(None);
    let expect: Vec<usize> = (0..n).filter(|&x| comps(Some(x)) > base).collect();
    let got = articulation_points(g);
    let mut gl: Vec<usize> = got.iter().map(|&x| v.label(x, "articulation_points")).collect::<Result<_, _>>()?;
    gl.sort();
    ensure_eq!(gl, expect, "C16/articulation_points", "articulation_points vs nodes whose removal increases the component count");
    let non_ap_deg2 = (0..n).any(|x| !expect.contains(&x) && adj[x].iter().filter(|e| e.0 != x).count() >= 2);
    obs.nontrivial = !expect.is_empty() && non_ap_deg2;
    obs.label_if(base >= 2, ">=2 components");
    Ok(())
}

pub fn a_run(c: &Case) -> Outcome {
    let a0 = c.g.build(&OPTS);
    let n = a0.n;
    let mut obs = Obs::default();
    let enc = c.enc % 6;
    let simple = super::c10::simplified_min(&a0);
    let a = if matches!(enc, 2 | 3 | 4) { &simple } else { &a0 };
    let salt = c.salt as u64 + 1;
    match enc {
        0 => {
            let g: Graph<usize, i32, Undirected, u32> = to_graph(a, |w| w);
            ap_check(&g, &View::full(a, (0..n).map(NodeIndex::new)), &mut obs)?;
            obs.label("Graph");
        }
        1 | 5 => {
            let (g, map) = to_stable_holes::<i32, Undirected, u32>(a, salt, |w| w);
            ap_check(&g, &View::full(a, map), &mut obs)?;
            obs.label("StableGraph, holes");
        }
        2 => {
            let g = to_graphmap::<i32, Undirected>(a, |w| w);
            ap_check(&g, &View::full(a, (0..n).map(gm_key)), &mut obs)?;
            obs.label("GraphMap");
        }
        3 => {
            let g = to_csr::<i32, Undirected>(a, |w| w);
            ap_check(&g, &View::full(a, (0..n).map(|i| i as u32)), &mut obs)?;
            obs.label("Csr");
        }
        _ => {
            let (g, map) = to_matrix_holes::<i32, Undirected>(a, salt, |w| w);
            ap_check(&g, &View::full(a, map), &mut obs)?;
            obs.label("MatrixGraph, holes");
        }
    }
    Ok(obs)
}

/// scope of the bounded-exhaustive sub-check: every labelled digraph on 1..=4 nodes and every
/// labelled undirected graph on 1..=5 nodes (6 in the thorough tier), loops included
fn scope(tier: Tier) -> (usize, usize) {
    if tier == Tier::Quick {
        (4, 5)
    } else {
        (4, 6)
    }
}
const ENUM_P: u64 = 6 * 4;
fn enum_count_d(tier: Tier) -> u64 {
    small_graph_count(scope(tier).0, 0) * ENUM_P
}
fn enum_make_d(tier: Tier, i: u64) -> Case {
    let (dir, n, mask) = small_graph(i / ENUM_P, scope(tier).0, 0).expect("index within the scope");
    let p = i % ENUM_P;
    Case { g: raw_explicit(dir, n, mask, 0), enc: (p % 6) as u8, salt: (i % 251) as u8, root: sel_for((p / 6) as usize % n, n) }
}
/// every loop-free labelled digraph on 5 nodes (2^20) x every root, on the plain Graph encoding
fn enum_count_d5(_tier: Tier) -> u64 {
    (1u64 << 20) * 5
}
fn enum_make_d5(_tier: Tier, i: u64) -> Case {
    Case { g: raw_explicit_loopless(5, i / 5, 0), enc: 0, salt: 0, root: sel_for((i % 5) as usize, 5) }
}
fn enum_count_a(tier: Tier) -> u64 {
    small_graph_count(0, scope(tier).1) * 6
}
fn enum_make_a(tier: Tier, i: u64) -> Case {
    let (dir, n, mask) = small_graph(i / 6, 0, scope(tier).1).expect("index within the scope");
    Case { g: raw_explicit(dir, n, mask, 0), enc: (i % 6) as u8, salt: (i % 251) as u8, root: 0 }
}

/// libFuzzer entry / from-bytes generators: bring decoded cases into the domains of the strategies
pub fn d_fuzz_domain(c: &mut Case) -> bool {
    c.g.sanitize(1, 13, 36, Some(true));
    true
}
pub fn a_fuzz_domain(c: &mut Case) -> bool {
    c.g.sanitize(0, 14, 30, Some(false));
    true
}
pub fn d_bytes_strategy(_tier: Tier) -> BoxedStrategy<Case> {
    decoded_strategy(d_fuzz_domain)
}
pub fn a_bytes_strategy(_tier: Tier) -> BoxedStrategy<Case> {
    decoded_strategy(a_fuzz_domain)
}

pub fn property() -> Property {
    Property {
        id: "C16",
        rule: "dominators: random directed multigraphs with loops and unreachable parts (1..=9 nodes quick), every root, in Graph / StableGraph+MatrixGraph with vacancies / GraphMap / Csr / adj::List; A dominates B iff B becomes unreachable when A is deleted; immediate_dominator, dominators, strict_dominators, immediately_dominated_by and root compared with that relation; non-trivial = dominator tree of depth >= 2 with a join node whose idom is not a predecessor. articulation points: undirected multigraphs with loops (0..=10 nodes, 1-4 components) in Graph / StableGraph / GraphMap / Csr / MatrixGraph, compared as a set with brute-force vertex deletion; non-trivial = some articulation point and some non-articulation node of degree >= 2; distinct by case fingerprint; bounded-exhaustive sub-checks: dominators on every labelled digraph on 1..=4 nodes (loops included) x 6 encodings x roots and on every loop-free digraph on 5 nodes x every root; articulation points on every undirected graph on 1..=5 nodes (6 thorough) x 6 encodings",
        assumptions: &[],
        both_profiles: false,
        subs: vec![
            sub_fuzz("dominators/simple_fast", 3_000_000, 50_000_000, d_strategy, d_run, d_fuzz_domain), sub("dominators/simple_fast-from-bytes", 600_000, 10_000_000, d_bytes_strategy, d_run),
            sub_fuzz("articulation_points/brute", 3_000_000, 50_000_000, a_strategy, a_run, a_fuzz_domain), sub("articulation_points/brute-from-bytes", 600_000, 10_000_000, a_bytes_strategy, a_run),
            sub_enum("dominators/all-small-digraphs", enum_count_d, enum_make_d, d_run),
            sub_enum("dominators/all-loopfree-digraphs-on-5-nodes", enum_count_d5, enum_make_d5, d_run),
            sub_enum("articulation_points/all-small-graphs", enum_count_a, enum_make_a, a_run),
        ],
    }
}
