#![no_main]
//! C17: arbitrary bytes read as bincode (first byte selects the graph type) and, when they are valid
//! UTF-8, as JSON.  Oracle = props::c17::judge_bytes (Err, or a fully consistent graph that survives
//! further use; a panic is a crash).
use libfuzzer_sys::fuzz_target;
use pgcheck::engine::Obs;

fuzz_target!(|data: &[u8]| {
    if data.is_empty() {
        return;
    }
    let mut obs = Obs::default();
    if let Err(f) = pgcheck::props::c17::judge_bytes(&data[1..], data[0], &mut obs) {
        panic!("C17 {}: {}", f.sig, f.msg);
    }
    if let Ok(text) = std::str::from_utf8(&data[1..]) {
        if let Err(f) = pgcheck::props::c17::judge_json(text, data[0], &mut obs) {
            panic!("C17 {}: {}", f.sig, f.msg);
        }
    }
});
