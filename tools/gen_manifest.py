#!/usr/bin/env python3
"""Regenerates /verif/MANIFEST.json from the table below (kept in one place so the
manifest is always schema-valid).  Run: python3 tools/gen_manifest.py"""
import json, os, subprocess

V = "/verif"
# id -> (technique, level text, level note, design ref)
CLAIMED = {
 "C19": ("stateful property-based testing (proptest call sequences) against a naive relabel-on-union partition model",
         "Generated call histories over UnionFind<u8|u16|u32|usize>, every return value and the full find() vector compared with a reference partition after every call; failures shrink to a minimal call sequence that is saved as a replay file.",
         "Trusted: the 40-line reference partition in harness/src/props/c19.rs; proptest's generators. Exploration only: held on the histories generated, not a proof.",
         "DESIGN.md section 5, C19"),
}
PLANNED = {}

def main():
    props = [json.loads(l) for l in open(os.path.join(V, "properties.jsonl"))]
    checks, na = [], []
    for p in props:
        pid = p["id"]
        if pid in CLAIMED:
            tech, text, note, ref = CLAIMED[pid]
            checks.append({
                "property_id": pid,
                "quick_cmd": f"./check {pid} quick",
                "thorough_cmd": f"./check {pid} thorough",
                "evidence_file": f"/verif/evidence/{pid}.json",
                "replay_cmd_template": "./check replay {path}",
                "engine": "pgcheck",
                "level_claimed": {"category": "exploration", "text": text, "design_ref": ref},
                "level_note": note,
                "technique": tech,
            })
        else:
            na.append({"property_id": pid, "reason": PLANNED.get(pid, "check not built yet in this round (property-based check designed in DESIGN.md section 5; not claimed until its harness module exists)")})
    hooks_commits = []
    m = {
        "version": 1,
        "setup_cmd": "./check build",
        "hooks": {
            "guard": "petgraph_verif",
            "enable": "none needed: every property is observable through petgraph's public API; the harness links /repo as a path dependency and is rebuilt from its working tree by ./check (RUSTFLAGS unchanged)",
            "baseline_off_cmd": "cd /repo && cargo test --workspace --no-fail-fast --offline",
            "source_commits": hooks_commits,
            "add_only": True,
        },
        "engines": [
            {"name": "pgcheck", "path": "/verif/harness", "serves_properties": sorted(CLAIMED),
             "kind_free_text": "Rust binary: sharded, seeded proptest campaigns (TestRunner, RngSeed::Fixed from VERIF_SEED) over generated operation histories / graphs with reference-model, brute-force, differential and round-trip oracles; shrinking to replay files; known-findings protocol"},
        ],
        "checks": checks,
        "notes": "Exit codes: 0 held (KNOWN-FINDING lines possible), 1 VIOLATION, 2 inconclusive. New failing cases are written to /verif/failures/<id>/ (untracked); pinned reproductions live in /verif/regress/<id>/ and are replayed first on every run. known_findings.json is never written at run time.",
    }
    if na:
        m["not_applicable"] = na
    json.dump(m, open(os.path.join(V, "MANIFEST.json"), "w"), indent=1)
    print("claimed:", len(checks), "not claimed:", len(na))

if __name__ == "__main__":
    main()
