//! C18 — graph6 is spec-exact and round-trips; Dot output is well-formed and faithful.

use crate::agraph::*;
use crate::engine::*;
use petgraph::csr::Csr;
use petgraph::dot::{Config, Dot, RankDir};
use petgraph::graph::{Graph, NodeIndex};
use petgraph::graph6::{FromGraph6, ToGraph6};
use petgraph::graphmap::GraphMap;
use petgraph::matrix_graph::MatrixGraph;
use petgraph::stable_graph::StableGraph;
use petgraph::visit::{EdgeRef, GraphProp, IntoEdgeReferences, IntoNodeReferences, NodeIndexable, NodeRef};
use petgraph::{Directed, Undirected};
use proptest::prelude::*;
use serde::{Deserialize, Serialize};
use std::collections::hash_map::RandomState;
use std::fmt::Write as _;

macro_rules! ck {
    ($cond:expr, $sig:expr, $($arg:tt)*) => {
        if !($cond) {
            return Err(Failure { sig: format!("C18/{}", $sig), msg: format!($($arg)*) });
        }
    };
}

// ------------------------------------------------------------------ graph6

#[derive(Debug, Clone, Serialize, Deserialize)]
pub struct GCase {
    pub n: u8,
    /// edge density selector and bit source
    pub bits: Vec<u64>,
    pub density: u8,
    pub enc: u8,
    pub salt: u8,
}

pub fn g_strategy(tier: Tier) -> BoxedStrategy<GCase> {
    let maxn = if tier == Tier::Quick { 70u8 } else { 100u8 };
    (prop_oneof![3 => 0u8..=12, 3 => 58u8..=68, 1 => 13u8..=maxn], proptest::collection::vec(any::<u64>(), 8), 0u8..4, any::<u8>(), any::<u8>())
        .prop_map(|(n, bits, density, enc, salt)| GCase { n, bits, density, enc, salt })
        .boxed()
}

/// Independent graph6 encoder, written from the format description (formats.txt):
/// N(n) then R(x), x = upper triangle in column order (0,1),(0,2),(1,2),(0,3),...
pub fn graph6_reference(n: usize, adj: &[Vec<bool>]) -> String {
    let mut out: Vec<u8> = Vec::new();
    if n <= 62 {
        out.push(n as u8 + 63);
    } else if n <= 258047 {
        out.push(126);
        out.push(((n >> 12) & 63) as u8 + 63);
        out.push(((n >> 6) & 63) as u8 + 63);
        out.push((n & 63) as u8 + 63);
    } else {
        unreachable!()
    }
    let mut acc = 0u8;
    let mut k = 0;
    for j in 1..n {
        for i in 0..j {
            acc = (acc << 1) | adj[i][j] as u8;
            k += 1;
            if k == 6 {
                out.push(acc + 63);
                acc = 0;
                k = 0;
            }
        }
    }
    if k > 0 {
        out.push((acc << (6 - k)) + 63);
    }
    String::from_utf8(out).unwrap()
}

fn adj_from_case(c: &GCase) -> (usize, Vec<Vec<bool>>) {
    let n = c.n as usize;
    let mut adj = vec![vec![false; n]; n];
    let mut k = 0usize;
    for j in 1..n {
        for i in 0..j {
            let w = c.bits[(k / 64) % c.bits.len()].rotate_left((k / 512) as u32 * 7);
            let w2 = c.bits[(k / 64 + 3) % c.bits.len()];
            let bit = |x: u64| (x >> (k % 64)) & 1 == 1;
            let present = match c.density % 4 {
                0 => bit(w) && bit(w2),
                1 => bit(w),
                2 => bit(w) || bit(w2),
                _ => !(bit(w) && bit(w2) && bit(w.rotate_left(17))),
            };
            adj[i][j] = present;
            adj[j][i] = present;
            k += 1;
        }
    }
    (n, adj)
}

pub fn g_run(c: &GCase) -> Outcome {
    let (n, adj) = adj_from_case(c);
    g_core(n, adj, c.enc, c.salt)
}

/// orders far beyond the quick range: 200..=700 nodes, and the neighbourhoods of 256 and 4096
/// (byte and 12-bit boundaries of the 18-bit order field), sparse edge sets
#[derive(Debug, Clone, Serialize, Deserialize)]
pub struct GLCase {
    pub n: u16,
    pub edges: Vec<(u16, u16)>,
    pub enc: u8,
    pub salt: u8,
}

pub fn gl_strategy(_tier: Tier) -> BoxedStrategy<GLCase> {
    (
        prop_oneof![6 => 200u16..=700, 6 => 250u16..=262, 1 => 4090u16..=4100],
        proptest::collection::vec((any::<u16>(), any::<u16>()), 0..40),
        prop_oneof![Just(0u8), Just(2u8), Just(3u8), Just(5u8), Just(7u8)],
        any::<u8>(),
    )
        .prop_map(|(n, edges, enc, salt)| GLCase { n, edges, enc, salt })
        .boxed()
}

pub fn gl_run(c: &GLCase) -> Outcome {
    let n = c.n as usize;
    let mut adj = vec![vec![false; n]; n];
    for &(a, b) in &c.edges {
        let (i, j) = (crate::util::pick(a, n), crate::util::pick(b, n));
        if i != j {
            adj[i][j] = true;
            adj[j][i] = true;
        }
    }
    let mut obs = g_core(n, adj, c.enc, c.salt)?;
    obs.nontrivial = true;
    obs.label_if(n >= 256, "n >= 256");
    obs.label_if(n >= 4096, "n >= 4096");
    Ok(obs)
}

fn g_core(n: usize, adj: Vec<Vec<bool>>, enc_sel: u8, salt8: u8) -> Outcome {
    struct Sel {
        enc: u8,
        salt: u8,
    }
    let c = &Sel { enc: enc_sel, salt: salt8 };
    let reference = graph6_reference(n, &adj);
    let edges: Vec<(usize, usize)> = (0..n).flat_map(|j| (0..j).map(move |i| (i, j))).filter(|&(i, j)| adj[i][j]).collect();
    let a = AGraph { directed: false, n, edges: edges.iter().map(|&(i, j)| if (i + j + c.salt as usize) % 2 == 0 { (i, j, 1) } else { (j, i, 1) }).collect() };
    let salt = c.salt as u64 + 1;
    let mut obs = Obs::default();
    macro_rules! enc_check {
        ($s:expr, $what:expr) => {{
            let s: String = $s;
            ck!(s == reference, "graph6-encoding", "{}: graph6_string() = {:?}, the format gives {:?} (n = {n}, {} edges)", $what, s, reference, edges.len());
        }};
    }
    // decode into `$t`, read the adjacency back through `$has`
    macro_rules! dec_check {
        ($t:ty, $what:expr, $count:expr, $has:expr) => {{
            let r = guarded(|| <$t>::from_graph6_string(reference.clone()));
            let g = match r {
                Ok(g) => g,
                Err(p) => return fail("C18/graph6-decode-panics", format!("{}: from_graph6_string({reference:?}) panicked: {p}", $what)),
            };
            let (nc, ec): (usize, usize) = $count(&g);
            ck!(nc == n, "graph6-decode-nodes", "{}: decoding {reference:?} gives {nc} nodes, expected {n}", $what);
            ck!(ec == edges.len(), "graph6-decode-edge-count", "{}: decoding {reference:?} gives {ec} edges, expected {}", $what, edges.len());
            for i in 0..n {
                for j in 0..n {
                    let got: bool = $has(&g, i, j);
                    ck!(got == adj[i][j], "graph6-decode-edges", "{}: decoded graph has edge {i}-{j}: {got}, expected {}", $what, adj[i][j]);
                }
            }
            // decode(encode(g)) keeps the adjacency
            enc_check!(g.graph6_string(), format!("{} re-encoded", $what));
        }};
    }
    // (a u8-indexed Graph cannot hold 255 or more edges)
    let enc = if c.enc % 8 == 1 && (edges.len() >= 255 || n >= 255) { 0 } else { c.enc % 8 };
    match enc {
        0 => {
            enc_check!(to_graph::<i32, Undirected, u32>(&a, |w| w).graph6_string(), "Graph<u32>");
            dec_check!(Graph<(), (), Undirected, u32>, "Graph<u32>", |g: &Graph<(), (), Undirected, u32>| (g.node_count(), g.edge_count()), |g: &Graph<(), (), Undirected, u32>, i, j| g.contains_edge(NodeIndex::new(i), NodeIndex::new(j)));
        }
        1 => {
            enc_check!(to_graph::<i32, Undirected, u8>(&a, |w| w).graph6_string(), "Graph<u8>");
            dec_check!(Graph<(), (), Undirected, u8>, "Graph<u8>", |g: &Graph<(), (), Undirected, u8>| (g.node_count(), g.edge_count()), |g: &Graph<(), (), Undirected, u8>, i, j| g.contains_edge(NodeIndex::new(i), NodeIndex::new(j)));
        }
        2 => {
            enc_check!(to_graph::<i32, Undirected, u16>(&a, |w| w).graph6_string(), "Graph<u16>");
            enc_check!(to_graph::<i32, Undirected, usize>(&a, |w| w).graph6_string(), "Graph<usize>");
            dec_check!(Graph<(), (), Undirected, usize>, "Graph<usize>", |g: &Graph<(), (), Undirected, usize>| (g.node_count(), g.edge_count()), |g: &Graph<(), (), Undirected, usize>, i, j| g.contains_edge(NodeIndex::new(i), NodeIndex::new(j)));
        }
        3 | 4 => {
            let (g, _) = to_stable_holes::<i32, Undirected, u32>(&a, salt, |w| w);
            enc_check!(g.graph6_string(), "StableGraph with vacancies");
            obs.label("StableGraph with vacancies");
            dec_check!(StableGraph<(), (), Undirected, u32>, "StableGraph", |g: &StableGraph<(), (), Undirected, u32>| (g.node_count(), g.edge_count()), |g: &StableGraph<(), (), Undirected, u32>, i, j| g.contains_edge(NodeIndex::new(i), NodeIndex::new(j)));
        }
        5 => {
            if n <= 100 {
                enc_check!(to_graphmap::<i32, Undirected>(&a, |w| w).graph6_string(), "GraphMap");
            } else {
                // (the scrambled keys of to_graphmap are injective up to 101 labels only)
                let mut gm: GraphMap<u32, i32, Undirected, RandomState> = GraphMap::default();
                for i in 0..n {
                    gm.add_node(i as u32);
                }
                for &(x, y, w) in &a.edges {
                    gm.add_edge(x as u32, y as u32, w);
                }
                enc_check!(gm.graph6_string(), "GraphMap");
            }
            dec_check!(GraphMap<u32, (), Undirected, RandomState>, "GraphMap", |g: &GraphMap<u32, (), Undirected, RandomState>| (g.node_count(), g.edge_count()), |g: &GraphMap<u32, (), Undirected, RandomState>, i, j| g.contains_edge(i as u32, j as u32));
        }
        6 => {
            let (g, _) = to_matrix_holes::<i32, Undirected>(&a, salt, |w| w);
            enc_check!(g.graph6_string(), "MatrixGraph with reused ids");
            dec_check!(MatrixGraph<(), (), RandomState, Undirected, Option<()>, u16>, "MatrixGraph", |g: &MatrixGraph<(), (), RandomState, Undirected, Option<()>, u16>| (g.node_count(), g.edge_count()), |g: &MatrixGraph<(), (), RandomState, Undirected, Option<()>, u16>, i, j| g.has_edge(NodeIndex::new(i), NodeIndex::new(j)));
        }
        _ => {
            enc_check!(to_csr::<i32, Undirected>(&a, |w| w).graph6_string(), "Csr");
            dec_check!(Csr<(), (), Undirected, u32>, "Csr", |g: &Csr<(), (), Undirected, u32>| (g.node_count(), g.edge_count()), |g: &Csr<(), (), Undirected, u32>, i, j| g.contains_edge(i as u32, j as u32));
        }
    }
    obs.nontrivial = n >= 2 && !edges.is_empty();
    obs.label_if(n >= 63, "n >= 63 (long header)");
    obs.label_if(n == 62 || n == 63, "n at the 62/63 header switch");
    Ok(obs)
}

// ------------------------------------------------------------------ Dot

#[derive(Debug, Clone, Serialize, Deserialize)]
pub struct DCase {
    pub g: RawGraph,
    pub enc: u8,
    pub salt: u8,
    /// bit set: NodeIndexLabel, EdgeIndexLabel, EdgeNoLabel, NodeNoLabel, GraphContentOnly; then 3 bits RankDir (0 none)
    pub config: u8,
    /// 0 Display, 1 Debug, 2 alternate Debug, 3 alternate Display
    pub fmt: u8,
    pub words: Vec<Vec<u8>>,
    pub attrs: bool,
}

/// Weight type whose `Display`/`Debug` write either the whole string at once (`write_str`) or one
/// character at a time (`write_char`): both paths of the label escaper must be exercised.
#[derive(Clone, PartialEq)]
pub struct Cw {
    pub s: String,
    pub charwise: bool,
}

impl std::fmt::Display for Cw {
    fn fmt(&self, f: &mut std::fmt::Formatter) -> std::fmt::Result {
        if self.charwise {
            for ch in self.s.chars() {
                f.write_char(ch)?;
            }
            Ok(())
        } else {
            f.write_str(&self.s)
        }
    }
}

impl std::fmt::Debug for Cw {
    fn fmt(&self, f: &mut std::fmt::Formatter) -> std::fmt::Result {
        if self.charwise {
            f.write_char('<')?;
            for ch in self.s.chars() {
                f.write_char(ch)?;
            }
            f.write_char('>')
        } else {
            std::fmt::Debug::fmt(&self.s, f)
        }
    }
}

const ALPHABET: [char; 17] = ['"', '\\', '\n', '\r', 'l', 'n', ' ', ']', '[', ';', '{', '}', '-', '>', 'a', 'é', '\u{0}'];

pub fn d_strategy(tier: Tier) -> BoxedStrategy<DCase> {
    let (n, m) = if tier == Tier::Quick { (6, 10) } else { (10, 20) };
    (
        raw_graph(0, n, m, None),
        any::<u8>(),
        any::<u8>(),
        any::<u8>(),
        0u8..4,
        proptest::collection::vec(proptest::collection::vec(0u8..17, 0..8), 8),
        any::<bool>(),
    )
        .prop_map(|(g, enc, salt, config, fmt, words, attrs)| DCase { g, enc, salt, config, fmt, words, attrs })
        .boxed()
}

fn word(c: &DCase, i: usize) -> Cw {
    let s = c.words[i % c.words.len()].iter().map(|&k| ALPHABET[k as usize % ALPHABET.len()]).collect::<String>() + &format!("{}", i % 3);
    Cw { s, charwise: (c.salt as usize + i) % 2 == 0 }
}

#[derive(Debug, PartialEq, Clone)]
enum Tok {
    Id(String),
    Str(String),
    LBr,
    RBr,
    LBrace,
    RBrace,
    Eq,
    Arrow,
    Line,
}

/// tokenizer for the DOT subset the printer uses; quoted strings are returned un-escaped
fn tokenize(s: &str) -> Result<Vec<Tok>, String> {
    let cs: Vec<char> = s.chars().collect();
    let mut i = 0;
    let mut out = Vec::new();
    while i < cs.len() {
        let c = cs[i];
        match c {
            ' ' | '\t' | '\n' | '\r' => i += 1,
            '[' => {
                out.push(Tok::LBr);
                i += 1
            }
            ']' => {
                out.push(Tok::RBr);
                i += 1
            }
            '{' => {
                out.push(Tok::LBrace);
                i += 1
            }
            '}' => {
                out.push(Tok::RBrace);
                i += 1
            }
            '=' => {
                out.push(Tok::Eq);
                i += 1
            }
            '-' => {
                if cs.get(i + 1) == Some(&'>') {
                    out.push(Tok::Arrow);
                } else if cs.get(i + 1) == Some(&'-') {
                    out.push(Tok::Line);
                } else {
                    return Err(format!("stray '-' at offset {i}"));
                }
                i += 2;
            }
            '"' => {
                i += 1;
                let mut t = String::new();
                loop {
                    match cs.get(i) {
                        None => return Err("unterminated string".into()),
                        Some('"') => {
                            i += 1;
                            break;
                        }
                        Some('\\') => {
                            match cs.get(i + 1) {
                                Some('"') => t.push('"'),
                                Some('\\') => t.push('\\'),
                                Some('l') => t.push('\n'),
                                Some(x) => return Err(format!("unknown escape \\{x} in a label")),
                                None => return Err("unterminated string".into()),
                            }
                            i += 2;
                        }
                        Some(&x) => {
                            t.push(x);
                            i += 1;
                        }
                    }
                }
                out.push(Tok::Str(t));
            }
            c if c.is_ascii_alphanumeric() || c == '_' => {
                let mut t = String::new();
                while i < cs.len() && (cs[i].is_ascii_alphanumeric() || cs[i] == '_') {
                    t.push(cs[i]);
                    i += 1;
                }
                out.push(Tok::Id(t));
            }
            other => return Err(format!("unexpected character {other:?} at offset {i} outside a quoted string")),
        }
    }
    Ok(out)
}

#[derive(Debug, Default)]
struct Parsed {
    header: Option<String>,
    closed: bool,
    rankdir: Option<String>,
    nodes: Vec<(String, Vec<(String, String)>)>,
    edges: Vec<(String, Tok, String, Vec<(String, String)>)>,
}

fn parse(toks: &[Tok]) -> Result<Parsed, String> {
    let mut p = Parsed::default();
    let mut i = 0;
    if let (Some(Tok::Id(h)), Some(Tok::LBrace)) = (toks.first(), toks.get(1)) {
        if h == "graph" || h == "digraph" {
            p.header = Some(h.clone());
            i = 2;
        }
    }
    let attrs = |i: &mut usize| -> Result<Vec<(String, String)>, String> {
        if toks.get(*i) != Some(&Tok::LBr) {
            return Err(format!("expected '[' at token {i:?}"));
        }
        *i += 1;
        let mut v = Vec::new();
        loop {
            match toks.get(*i) {
                Some(Tok::RBr) => {
                    *i += 1;
                    return Ok(v);
                }
                Some(Tok::Id(k)) => {
                    if toks.get(*i + 1) != Some(&Tok::Eq) {
                        return Err(format!("attribute {k} without '='"));
                    }
                    let val = match toks.get(*i + 2) {
                        Some(Tok::Str(s)) => s.clone(),
                        Some(Tok::Id(s)) => s.clone(),
                        other => return Err(format!("attribute {k} has value {other:?}")),
                    };
                    v.push((k.clone(), val));
                    *i += 3;
                }
                other => return Err(format!("unexpected {other:?} in an attribute list")),
            }
        }
    };
    while i < toks.len() {
        match &toks[i] {
            Tok::RBrace => {
                if p.header.is_none() || i + 1 != toks.len() {
                    return Err("unexpected '}'".into());
                }
                p.closed = true;
                i += 1;
            }
            Tok::Id(a) if a == "rankdir" && toks.get(i + 1) == Some(&Tok::Eq) => {
                match toks.get(i + 2) {
                    Some(Tok::Str(s)) => p.rankdir = Some(s.clone()),
                    other => return Err(format!("rankdir value {other:?}")),
                }
                i += 3;
            }
            Tok::Id(a) => match toks.get(i + 1) {
                Some(Tok::LBr) => {
                    i += 1;
                    let at = attrs(&mut i)?;
                    p.nodes.push((a.clone(), at));
                }
                Some(c @ (Tok::Arrow | Tok::Line)) => {
                    let b = match toks.get(i + 2) {
                        Some(Tok::Id(b)) => b.clone(),
                        other => return Err(format!("edge target {other:?}")),
                    };
                    i += 3;
                    let at = attrs(&mut i)?;
                    p.edges.push((a.clone(), c.clone(), b, at));
                }
                other => return Err(format!("statement starting with {a} followed by {other:?}")),
            },
            other => return Err(format!("statement starting with {other:?}")),
        }
    }
    Ok(p)
}

fn dot_check<G>(g: G, c: &DCase, what: &str, obs: &mut Obs) -> Result<(), Failure>
where
    G: IntoNodeReferences + IntoEdgeReferences + NodeIndexable + GraphProp + Copy,
    G: petgraph::visit::Data<NodeWeight = Cw, EdgeWeight = Cw>,
{
    let mut cfg: Vec<Config> = Vec::new();
    let flags = [Config::NodeIndexLabel, Config::EdgeIndexLabel, Config::EdgeNoLabel, Config::NodeNoLabel, Config::GraphContentOnly];
    let mut set = [false; 5];
    for (i, f) in flags.into_iter().enumerate() {
        if (c.config >> i) & 1 == 1 {
            cfg.push(f);
            set[i] = true;
        }
    }
    let rank = match (c.config >> 5) & 7 {
        1 => Some((RankDir::TB, "TB")),
        2 => Some((RankDir::BT, "BT")),
        3 => Some((RankDir::LR, "LR")),
        4 => Some((RankDir::RL, "RL")),
        _ => None,
    };
    if let Some((r, _)) = rank {
        cfg.push(Config::RankDir(r));
    }
    let edge_attr = |_: G, _: G::EdgeRef| if c.attrs { "color = red ".to_string() } else { String::new() };
    let node_attr = |_: G, _: G::NodeRef| if c.attrs { "shape = box ".to_string() } else { String::new() };
    let dot = Dot::with_attr_getters(g, &cfg, &edge_attr, &node_attr);
    let mut text = String::new();
    let r = match c.fmt % 4 {
        0 => write!(text, "{}", dot),
        1 => write!(text, "{:?}", dot),
        2 => write!(text, "{:#?}", dot),
        _ => write!(text, "{:#}", dot),
    };
    ck!(r.is_ok(), "dot-fmt-error", "{what}: formatting failed");
    if !c.attrs {
        // the shorter constructors are the same wrapper with empty attribute getters
        let mut t2 = String::new();
        let other = if cfg.is_empty() { Dot::new(g) } else { Dot::with_config(g, &cfg) };
        let _ = match c.fmt % 4 {
            0 => write!(t2, "{}", other),
            1 => write!(t2, "{:?}", other),
            2 => write!(t2, "{:#?}", other),
            _ => write!(t2, "{:#}", other),
        };
        ck!(t2 == text, "dot-constructors-differ", "{what}: Dot::new / Dot::with_config print {t2:?}, with_attr_getters with empty getters prints {text:?}");
    }
    let shown = |w: &Cw| -> String {
        match c.fmt % 4 {
            0 => format!("{}", w),
            1 => format!("{:?}", w),
            2 => format!("{:#?}\n", w),
            _ => format!("{:#}\n", w),
        }
    };
    let toks = tokenize(&text).map_err(|e| Failure { sig: "C18/dot-not-well-formed".into(), msg: format!("{what}: output does not tokenize: {e}\n{text}") })?;
    let p = parse(&toks).map_err(|e| Failure { sig: "C18/dot-not-well-formed".into(), msg: format!("{what}: output does not parse: {e}\n{text}") })?;
    let directed = g.is_directed();
    if set[4] {
        ck!(p.header.is_none() && !p.closed, "dot-content-only-has-header", "{what}: GraphContentOnly output has a header/brace\n{text}");
    } else {
        ck!(p.header.as_deref() == Some(if directed { "digraph" } else { "graph" }) && p.closed, "dot-header", "{what}: header {:?} (closed: {}) for a {} graph\n{text}", p.header, p.closed, if directed { "directed" } else { "undirected" });
    }
    ck!(p.rankdir.as_deref() == rank.map(|r| r.1), "dot-rankdir", "{what}: rankdir {:?}, expected {:?}", p.rankdir, rank.map(|r| r.1));
    // node statements
    let exp_nodes: Vec<(usize, Cw)> = g.node_references().map(|r| (g.to_index(r.id()), r.weight().clone())).collect();
    ck!(p.nodes.len() == exp_nodes.len(), "dot-node-statements", "{what}: {} node statements, expected {}\n{text}", p.nodes.len(), exp_nodes.len());
    for ((id, attrs), (ix, w)) in p.nodes.iter().zip(&exp_nodes) {
        ck!(*id == ix.to_string(), "dot-node-id", "{what}: node statement id {id}, expected index {ix}\n{text}");
        let labels: Vec<&String> = attrs.iter().filter(|a| a.0 == "label").map(|a| &a.1).collect();
        if set[3] {
            ck!(labels.is_empty(), "dot-unexpected-label", "{what}: NodeNoLabel but node {id} has a label");
        } else {
            ck!(labels.len() == 1, "dot-label-count", "{what}: node {id} has {} labels\n{text}", labels.len());
            let exp = if set[0] { ix.to_string() } else { shown(w) };
            ck!(*labels[0] == exp, "dot-node-label", "{what}: node {id} label un-escapes to {:?}, expected {:?}\n{text}", labels[0], exp);
        }
        let others: Vec<&(String, String)> = attrs.iter().filter(|a| a.0 != "label").collect();
        let exp_other: Vec<(String, String)> = if c.attrs { vec![("shape".into(), "box".into())] } else { vec![] };
        ck!(others.into_iter().cloned().collect::<Vec<_>>() == exp_other, "dot-injected-attribute", "{what}: node {id} has attributes {attrs:?}\n{text}");
    }
    // edge statements
    let exp_edges: Vec<(usize, usize, Cw)> = g.edge_references().map(|e| (g.to_index(e.source()), g.to_index(e.target()), e.weight().clone())).collect();
    ck!(p.edges.len() == exp_edges.len(), "dot-edge-statements", "{what}: {} edge statements, expected {}\n{text}", p.edges.len(), exp_edges.len());
    for (k, ((a, conn, b, attrs), (s, t, w))) in p.edges.iter().zip(&exp_edges).enumerate() {
        ck!(*conn == if directed { Tok::Arrow } else { Tok::Line }, "dot-connector", "{what}: connector {conn:?} in a {} graph", if directed { "directed" } else { "undirected" });
        ck!(*a == s.to_string() && *b == t.to_string(), "dot-edge-endpoints", "{what}: edge statement {a} .. {b}, expected {s} .. {t}\n{text}");
        let labels: Vec<&String> = attrs.iter().filter(|x| x.0 == "label").map(|x| &x.1).collect();
        if set[2] {
            ck!(labels.is_empty(), "dot-unexpected-label", "{what}: EdgeNoLabel but edge {k} has a label");
        } else {
            ck!(labels.len() == 1, "dot-label-count", "{what}: edge {k} has {} labels\n{text}", labels.len());
            if set[1] {
                ck!(labels[0].parse::<usize>().is_ok(), "dot-edge-index-label", "{what}: EdgeIndexLabel gives {:?}", labels[0]);
            } else {
                let exp = shown(w);
                ck!(*labels[0] == exp, "dot-edge-label", "{what}: edge {k} label un-escapes to {:?}, expected {:?}\n{text}", labels[0], exp);
            }
        }
        let others: Vec<(String, String)> = attrs.iter().filter(|x| x.0 != "label").cloned().collect();
        let exp_other: Vec<(String, String)> = if c.attrs { vec![("color".into(), "red".into())] } else { vec![] };
        ck!(others == exp_other, "dot-injected-attribute", "{what}: edge {k} has attributes {attrs:?}\n{text}");
    }
    let hostile = exp_nodes.iter().map(|x| &x.1).chain(exp_edges.iter().map(|x| &x.2)).any(|w| w.s.contains('"') || w.s.contains('\\') || w.s.contains('\n'));
    obs.nontrivial |= hostile && !(set[2] && set[3]);
    Ok(())
}

pub fn d_run(c: &DCase) -> Outcome {
    let a0 = c.g.build(&GOpts::new(true, true, 0, 200));
    let n = a0.n;
    let mut obs = Obs::default();
    let salt = c.salt as u64 + 1;
    let simple = super::c10::simplified_min(&a0);
    let enc = c.enc % 5;
    let a = if enc >= 2 { &simple } else { &a0 };
    let ew = |w: i32| word(c, w as usize + 3);
    macro_rules! per_ty {
        ($ty:ty) => {{
            match enc {
                0 => {
                    let g: Graph<Cw, Cw, $ty, u32> = to_graph(a, ew).map(|i, _| word(c, i.index()), |_, w| w.clone());
                    dot_check(&g, c, "Graph", &mut obs)?;
                    // expected statements independent of petgraph's iterators: ids 0..n, edges in insertion order
                    obs.label("Graph");
                }
                1 => {
                    let (g0, _) = to_stable_holes::<Cw, $ty, u32>(a, salt, ew);
                    let g = g0.map(|i, _| word(c, i.index()), |_, w| w.clone());
                    dot_check(&g, c, "StableGraph with vacancies", &mut obs)?;
                    obs.label("StableGraph with vacancies");
                }
                2 => {
                    let (g0, _) = to_matrix_holes::<Cw, $ty>(a, salt, ew);
                    // MatrixGraph node weights are usize labels: render through a Graph-free path is not possible, use string weights
                    let mut g: MatrixGraph<Cw, Cw, RandomState, $ty, Option<Cw>, u16> = MatrixGraph::default();
                    let ids: Vec<_> = (0..n).map(|i| g.add_node(word(c, i))).collect();
                    for &(x, y, w) in &a.edges {
                        g.add_edge(ids[x], ids[y], ew(w));
                    }
                    let _ = g0;
                    dot_check(&g, c, "MatrixGraph", &mut obs)?;
                    obs.label("MatrixGraph");
                }
                3 => {
                    let mut g: Csr<Cw, Cw, $ty, u32> = Csr::new();
                    for i in 0..n {
                        g.add_node(word(c, i));
                    }
                    for &(x, y, w) in &a.edges {
                        g.add_edge(x as u32, y as u32, ew(w));
                    }
                    dot_check(&g, c, "Csr", &mut obs)?;
                    obs.label("Csr");
                }
                _ => {
                    // GraphMap: node weight type is the key; use a Graph built from it instead of String keys
                    let gm: GraphMap<i32, i32, $ty> = to_graphmap(a, |w| w);
                    let g: Graph<Cw, Cw, $ty, u16> = gm.into_graph::<u16>().map(|_, k| word(c, gm_label(*k)), |_, w| ew(*w));
                    dot_check(&g, c, "Graph from GraphMap", &mut obs)?;
                    obs.label("GraphMap -> Graph");
                }
            }
        }};
    }
    if a.directed {
        per_ty!(Directed)
    } else {
        per_ty!(Undirected)
    }
    Ok(obs)
}

/// bounded-exhaustive scope: every loop-free labelled undirected graph on 1..=7 nodes (the encoding
/// type rotates with the index)
fn g_enum_count(_tier: Tier) -> u64 {
    small_simple_und_count(7)
}
#[derive(Debug, Clone, Serialize, Deserialize)]
pub struct GECase {
    pub n: u8,
    pub mask: u64,
    pub enc: u8,
}
fn g_enum_make(_tier: Tier, i: u64) -> GECase {
    let (n, mask) = small_simple_und(i, 7).expect("index within the scope");
    GECase { n: n as u8, mask, enc: (i % 8) as u8 }
}
fn g_enum_run(c: &GECase) -> Outcome {
    let n = c.n as usize;
    let mut adj = vec![vec![false; n]; n];
    let mut bit = 0;
    for u in 0..n {
        for v in (u + 1)..n {
            if (c.mask >> bit) & 1 == 1 {
                adj[u][v] = true;
                adj[v][u] = true;
            }
            bit += 1;
        }
    }
    g_core(n, adj, c.enc, (c.mask % 251) as u8)
}

pub fn property() -> Property {
    Property {
        id: "C18",
        rule: "graph6: simple undirected graphs on 0..=70 nodes (three size classes: 0..12, 58..68 around the 62/63 header switch, 13..70; four densities) stored as Graph<u8|u16|u32|usize>, StableGraph with vacancies, GraphMap, MatrixGraph with reused ids, Csr: graph6_string() must equal an independent 30-line encoder written from the format text; from_graph6_string of the reference string must have exactly those nodes and edges in each of the five types, and re-encoding gives the same string; non-trivial = n >= 2 with an edge. Dot: random multigraphs (<=6 nodes quick) in Graph / StableGraph with vacancies / MatrixGraph / Csr / GraphMap-derived Graph, every subset of the five Config flags x RankDir, node and edge weights = strings over the adversarial alphabet {\" \\ \\n \\r l n space ] [ ; { } - > a e-acute NUL}, formatted with {} {:?} {:#?} {:#}, with and without attribute getters: the output is tokenised and parsed by a hand-written parser for the DOT subset; header/connector match directedness, node statements are exactly to_index of the nodes in order, edge statements exactly the edges, at most one label per statement, no attribute that was not asked for, every label un-escapes to exactly what the formatter prints for the weight; non-trivial = a weight with a quote, backslash or newline is printed; distinct by case fingerprint; graph6 additionally on orders 200..=700 and around 256 and 4096 (sparse), and bounded-exhaustively on every loop-free graph on 1..=7 nodes",
        assumptions: &["EdgeIndexLabel is only required to print a number (its meaning is not documented)"],
        both_profiles: false,
        subs: vec![
            sub("graph6/encode+decode", 200_000, 3_000_000, g_strategy, g_run),
            sub("graph6/large-orders", 1_000, 20_000, gl_strategy, gl_run),
            sub_enum("graph6/all-simple-graphs-to-7-nodes", g_enum_count, g_enum_make, g_enum_run),
            sub("dot/wellformed+faithful", 800_000, 16_000_000, d_strategy, d_run),
        ],
    }
}
