#!/bin/sh
# build helper: show only errors / warnings of the harness crate
cd /verif/harness
cargo build --offline --release --message-format short 2>&1 | grep -v "^/repo\|petgraph" | grep -E "error|warning: unused|Finished" | head -${1:-40}
