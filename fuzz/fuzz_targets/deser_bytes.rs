#![no_main]
//! C17: arbitrary bytes read as bincode (first byte selects the graph type) and, when they are valid
//! UTF-8, as JSON.  Oracle = props::c17 (Err, or a fully consistent graph that survives further use; a
//! panic is a crash).  A failing input is also written as a replay file for `./check replay`.
use libfuzzer_sys::fuzz_target;

fuzz_target!(|data: &[u8]| {
    pgcheck::props::c17::fuzz_raw(data);
});
